// Seeded PRNG: splitmix64 for seeding, xoshiro256** for the stream.
// No dependency, no platform variation. Every random choice of a run is drawn
// from one `Rng` initialised from (VERIF_SEED, property tag, run index).

pub fn splitmix64(x: &mut u64) -> u64 {
    *x = x.wrapping_add(0x9E37_79B9_7F4A_7C15);
    let mut z = *x;
    z = (z ^ (z >> 30)).wrapping_mul(0xBF58_476D_1CE4_E5B9);
    z = (z ^ (z >> 27)).wrapping_mul(0x94D0_49BB_1331_11EB);
    z ^ (z >> 31)
}

pub fn tag_of(s: &str) -> u64 {
    // FNV-1a of the property id / sub-stream name
    let mut h: u64 = 0xcbf2_9ce4_8422_2325;
    for b in s.bytes() {
        h ^= b as u64;
        h = h.wrapping_mul(0x0000_0100_0000_01B3);
    }
    h
}

/// Seed of run `index` of property `tag` in the batch `batch_seed`.
pub fn run_seed(batch_seed: u64, tag: &str, index: u64) -> u64 {
    let mut x = batch_seed ^ tag_of(tag).rotate_left(17);
    let a = splitmix64(&mut x);
    let mut y = a ^ index.wrapping_mul(0xD605_BBB5_8C8A_BC03);
    splitmix64(&mut y)
}

#[derive(Clone, Debug)]
pub struct Rng {
    s: [u64; 4],
}

impl Rng {
    pub fn new(seed: u64) -> Rng {
        let mut x = seed;
        let s = [
            splitmix64(&mut x),
            splitmix64(&mut x),
            splitmix64(&mut x),
            splitmix64(&mut x),
        ];
        Rng { s }
    }
    #[inline]
    pub fn next_u64(&mut self) -> u64 {
        let result = self.s[1].wrapping_mul(5).rotate_left(7).wrapping_mul(9);
        let t = self.s[1] << 17;
        self.s[2] ^= self.s[0];
        self.s[3] ^= self.s[1];
        self.s[1] ^= self.s[2];
        self.s[0] ^= self.s[3];
        self.s[2] ^= t;
        self.s[3] = self.s[3].rotate_left(45);
        result
    }
    /// uniform in 0..n (n > 0)
    #[inline]
    pub fn below(&mut self, n: u64) -> u64 {
        debug_assert!(n > 0);
        // multiply-shift; bias is irrelevant here and the result is
        // platform independent
        ((self.next_u64() as u128 * n as u128) >> 64) as u64
    }
    /// uniform in lo..=hi
    #[inline]
    pub fn range(&mut self, lo: u64, hi: u64) -> u64 {
        lo + self.below(hi - lo + 1)
    }
    #[inline]
    pub fn irange(&mut self, lo: i64, hi: i64) -> i64 {
        lo + self.below((hi - lo + 1) as u64) as i64
    }
    #[inline]
    pub fn usize(&mut self, lo: usize, hi: usize) -> usize {
        self.range(lo as u64, hi as u64) as usize
    }
    /// uniform in [0, 1)
    #[inline]
    pub fn f64(&mut self) -> f64 {
        (self.next_u64() >> 11) as f64 * (1.0 / (1u64 << 53) as f64)
    }
    #[inline]
    pub fn frange(&mut self, lo: f64, hi: f64) -> f64 {
        lo + (hi - lo) * self.f64()
    }
    #[inline]
    pub fn chance(&mut self, p: f64) -> bool {
        self.f64() < p
    }
    #[inline]
    pub fn byte(&mut self) -> u8 {
        (self.next_u64() >> 56) as u8
    }
    pub fn pick<'a, T>(&mut self, xs: &'a [T]) -> &'a T {
        &xs[self.below(xs.len() as u64) as usize]
    }
    pub fn shuffle<T>(&mut self, xs: &mut [T]) {
        for i in (1..xs.len()).rev() {
            let j = self.below(i as u64 + 1) as usize;
            xs.swap(i, j);
        }
    }
    pub fn fork(&mut self) -> Rng {
        Rng::new(self.next_u64())
    }
}

/// 64-bit FNV-1a accumulator used for log hashes / signatures.
#[derive(Clone, Copy, Debug)]
pub struct Fnv(pub u64);
impl Fnv {
    pub fn new() -> Fnv {
        Fnv(0xcbf2_9ce4_8422_2325)
    }
    #[inline]
    pub fn u8(&mut self, b: u8) {
        self.0 ^= b as u64;
        self.0 = self.0.wrapping_mul(0x0000_0100_0000_01B3);
    }
    #[inline]
    pub fn u64(&mut self, v: u64) {
        for b in v.to_le_bytes() {
            self.u8(b);
        }
    }
    pub fn bytes(&mut self, bs: &[u8]) {
        for &b in bs {
            self.u8(b);
        }
        self.u64(bs.len() as u64);
    }
}
