// C17 — terminal table navigation is total and keeps the selection in range.
//
// System under test: the real `update()` (key/event handler) on the real
// `Jet1090` behind its mutex; the real `table::build_table` drawing into
// ratatui's TestBackend (terminal size is a knob, including sizes too small to
// hold the table), with the row-ageing clock read through hook H5; rows appear
// through the real `update_snapshot` and disappear by ageing and by the expiry
// sweep. Stubs: the event source (crossterm needs a tty), the TUI loop body and
// the expiry sweep (closures inlined in main(), re-stated here).

use super::app;
use super::batch::{Meta, Outcome, Scenario, Tier, Violation};
use super::exec::{self, RunEnd, SchedSpec, Sim};
use super::rng::{Fnv, Rng};
use super::world;
use crate::tui::Event;
use crate::{Jet1090, SortKey};
use crossterm::event::{KeyCode, KeyEvent, KeyModifiers};
use ratatui::backend::TestBackend;
use ratatui::Terminal;
use rs1090::prelude::*;
use serde::{Deserialize, Serialize};
use std::cell::RefCell;
use std::collections::BTreeMap;
use std::rc::Rc;
use std::sync::Arc;
use tokio::sync::Mutex;

#[derive(Clone, Debug, Serialize, Deserialize, PartialEq)]
pub enum Ev {
    /// a character key
    Ch(char),
    Esc,
    Enter,
    Backspace,
    Up,
    Down,
    Home,
    PageUp,
    PageDown,
    Tab,
    /// 250 ms tick carrying the current width
    Tick,
    /// read error on the terminal
    Error,
    /// terminal resized to (w, h): the backend changes size, later ticks carry w
    Resize(u16, u16),
    /// mouse wheel (the real event reader maps it to k / j)
    ScrollUp,
    ScrollDown,
    /// a character key pressed with modifiers (bit 0 shift, bit 1 control, bit 2 alt):
    /// the handler dispatches on the key code alone
    Mod(char, u8),
    /// the system clock is stepped (NTP correction, suspend/resume, operator):
    /// from now on the wall clock reads true time + this many seconds
    ClockStep(i32),
    /// any other event a terminal can produce (see `term_event`): further key
    /// codes (Delete, End, Left, Right, Insert, BackTab, F-keys, Null), key
    /// release / auto-repeat reports of the kitty protocol, focus changes, a
    /// bracketed paste, mouse buttons and movement. The property quantifies over
    /// "key presses and terminal events"; none of these is a documented key.
    Term(u8),
}

/// what `Ev::Term(n)` stands for
pub enum TermEv {
    /// a key press with this code: reaches update()
    Press(KeyCode),
    /// release (false) or auto-repeat (true) report of a character key
    NotPress(char, bool),
    FocusGained,
    FocusLost,
    Paste(&'static str),
    /// 0 button down, 1 button up, 2 moved, 3 drag, 4 wheel left, 5 wheel right
    Mouse(u8),
}

pub fn term_event(n: u8) -> TermEv {
    match n % 24 {
        0 => TermEv::Press(KeyCode::Delete),
        1 => TermEv::Press(KeyCode::End),
        2 => TermEv::Press(KeyCode::Left),
        3 => TermEv::Press(KeyCode::Right),
        4 => TermEv::Press(KeyCode::Insert),
        5 => TermEv::Press(KeyCode::BackTab),
        6 => TermEv::Press(KeyCode::F(1)),
        7 => TermEv::Press(KeyCode::F(12)),
        8 => TermEv::Press(KeyCode::Null),
        9 => TermEv::Press(KeyCode::End),
        10 => TermEv::NotPress('j', false),
        11 => TermEv::NotPress('q', false),
        12 => TermEv::NotPress('/', false),
        13 => TermEv::NotPress('j', true),
        14 => TermEv::NotPress('k', true),
        15 => TermEv::FocusGained,
        16 => TermEv::FocusLost,
        17 => TermEv::Paste("q/jk-"),
        18 => TermEv::Mouse(0),
        19 => TermEv::Mouse(1),
        20 => TermEv::Mouse(2),
        21 => TermEv::Mouse(3),
        22 => TermEv::Mouse(4),
        _ => TermEv::Mouse(5),
    }
}

#[derive(Clone, Debug, Serialize, Deserialize)]
pub struct TimedEv {
    pub at_ns: u64,
    pub ev: Ev,
}

#[derive(Clone, Debug, Serialize, Deserialize)]
pub struct Feed {
    /// aircraft index
    pub ac: u8,
    pub at_ns: u64,
    /// 0 identification, 1 airborne position, 2 velocity, 3 DF4, 4 operational
    /// status and 5 target state with arbitrary contents
    pub kind: u8,
}

#[derive(Clone, Debug, Serialize, Deserialize)]
pub struct C17Plan {
    pub term_w: u16,
    pub term_h: u16,
    pub events: Vec<TimedEv>,
    pub n_ac: u8,
    pub feeds: Vec<Feed>,
    /// expiry sweep: period in s (0 = no sweep task) and age limit in minutes
    pub sweep_period_s: u32,
    pub expire_min: u64,
    /// (instant, duration) during which another task holds the mutex
    pub holds: Vec<(u64, u64)>,
    pub sched: SchedSpec,
}

pub struct C17;

const KEYS: &[char] = &['j', 'k', 'g', 'a', 'c', 'v', '.', 'f', 'l', '-', '/', '/', 'x', 'J', 'Q', '(', '*', '1', ' ', 'q', 'é', '日'];

pub fn gen_ev(rng: &mut Rng, nav_bias: bool) -> Ev {
    if nav_bias && rng.chance(0.6) {
        return match rng.below(8) {
            0 | 1 => Ev::Ch('j'),
            2 | 3 => Ev::Ch('k'),
            4 => Ev::Down,
            5 => Ev::Up,
            6 => Ev::Ch('g'),
            _ => Ev::ScrollDown,
        };
    }
    match rng.below(31) {
        29 => Ev::Term(rng.below(24) as u8),
        30 => Ev::Mod(*rng.pick(&['a', 'c', 'v', '.', 'f', 'l', '-', 'q', 'j', 'k', 'g', '/', 'x']), rng.range(1, 7) as u8),
        0..=13 => Ev::Ch(*rng.pick(KEYS)),
        14 => {
            if rng.chance(0.5) {
                Ev::Esc
            } else {
                Ev::Enter
            }
        }
        15 => Ev::Enter,
        16 => Ev::Backspace,
        17 => Ev::Up,
        18 => Ev::Down,
        19 => Ev::Home,
        20 => Ev::PageUp,
        21 => Ev::PageDown,
        22 => Ev::Tab,
        23 => Ev::Error,
        24 => Ev::ScrollUp,
        25 => Ev::ScrollDown,
        26 => {
            let w = *rng.pick(&[1u16, 1, 2, 3, 10, 40, 70, 71, 80, 100, 120, 130, 131, 200, 300]);
            let h = *rng.pick(&[1u16, 1, 2, 3, 4, 5, 6, 10, 24, 50]);
            Ev::Resize(w, h)
        }
        _ => Ev::Ch(*rng.pick(&['j', 'k', '/', 'g'])),
    }
}

impl Scenario for C17 {
    type Plan = C17Plan;
    fn id(&self) -> &'static str {
        "C17"
    }
    fn runs(&self, tier: Tier) -> u64 {
        match tier {
            Tier::Quick => 30_000,
            Tier::Thorough => 1_000_000,
        }
    }
    fn generate(&self, rng: &mut Rng, tier: Tier, _idx: u64) -> C17Plan {
        let (term_w, term_h) = match rng.below(11) {
            10 => (rng.range(36, 60) as u16, *rng.pick(&[6u16, 10, 24])),
            // (a terminal has at least one column and one row: with zero columns
            // ratatui 0.29's Scrollbar itself panics, see DESIGN.md)
            0 => (*rng.pick(&[1u16, 1, 2, 3, 4]), *rng.pick(&[1u16, 1, 2, 3, 4])),
            1 => (rng.range(1, 300) as u16, rng.range(1, 8) as u16),
            2 => (rng.range(1, 12) as u16, rng.range(1, 60) as u16),
            3 => (200, 50),
            4 => (140, 30),
            _ => (*rng.pick(&[60u16, 80, 100, 120, 130, 160]), *rng.pick(&[10u16, 24, 40])),
        };
        let long = rng.chance(0.15);
        let span_ns: u64 = if long { rng.range(40, 200) * 1_000_000_000 } else { rng.range(1, 20) * 1_000_000_000 };
        let tick_ns: u64 = if long { 5_000_000_000 } else { 250_000_000 };
        let n_keys = rng.usize(0, if tier == Tier::Thorough { 120 } else { 60 });
        let nav_bias = rng.chance(0.5);
        let mut events: Vec<TimedEv> = Vec::new();
        // typed-ahead keys racing with the first tick
        let typed_ahead = rng.chance(0.3);
        for i in 0..n_keys {
            let at = if typed_ahead && i < 3 { 0 } else { rng.below(span_ns) };
            events.push(TimedEv { at_ns: at, ev: gen_ev(rng, nav_bias) });
        }
        // long tables: page and scroll through them
        // (decided below, once the number of aircraft is known)
        // bursts: a key auto-repeating at 30 Hz, a window being dragged (a resize
        // every few milliseconds) while typing, text pasted into the prompt
        if rng.chance(0.08) {
            let mut t = rng.below(span_ns);
            match rng.below(3) {
                0 => {
                    let ev = gen_ev(rng, true);
                    for _ in 0..rng.usize(20, 120) {
                        events.push(TimedEv { at_ns: t, ev: ev.clone() });
                        t += 33_000_000;
                    }
                }
                1 => {
                    for _ in 0..rng.usize(10, 60) {
                        events.push(TimedEv { at_ns: t, ev: Ev::Resize(rng.range(1, 200) as u16, rng.range(1, 60) as u16) });
                        t += rng.range(1_000_000, 8_000_000);
                        if rng.chance(0.5) {
                            events.push(TimedEv { at_ns: t, ev: gen_ev(rng, true) });
                        }
                    }
                }
                _ => {
                    events.push(TimedEv { at_ns: t, ev: Ev::Ch('/') });
                    for ch in "SIM0\x1b[200~ two lines\nq/jk  \t(AF?".chars() {
                        t += 100_000;
                        let ev = match ch {
                            '\n' => Ev::Enter,
                            '\x1b' => Ev::Esc,
                            '\t' => Ev::Tab,
                            c => Ev::Ch(c),
                        };
                        events.push(TimedEv { at_ns: t, ev });
                    }
                }
            }
        }
        // the wall clock is stepped backwards or forwards while rows are displayed
        if rng.chance(0.15) {
            for _ in 0..rng.usize(1, 2) {
                let by = *rng.pick(&[-1i32, -6, -20, -45, -120, -4000, 3, 40, 3000]);
                events.push(TimedEv { at_ns: rng.below(span_ns), ev: Ev::ClockStep(by) });
            }
        }
        // scripted: a long search pattern with multi-byte characters, longer than
        // what a narrow terminal can show
        if rng.chance(0.12) {
            let mut t = rng.below(span_ns);
            events.push(TimedEv { at_ns: t, ev: Ev::Ch('/') });
            for _ in 0..rng.usize(2, 70) {
                t += rng.range(1_000_000, 60_000_000);
                let ch = *rng.pick(&['a', 's', 'é', 'é', 'ü', '→', '日', '0', ' ', '-', 'I', 'M']);
                events.push(TimedEv { at_ns: t, ev: Ev::Ch(ch) });
            }
            if rng.chance(0.5) {
                events.push(TimedEv { at_ns: t + 1_000_000, ev: Ev::Enter });
            }
        }
        // scripted: search for something that matches only some aircraft, then navigate
        if rng.chance(0.35) {
            let mut t = rng.below(span_ns);
            let q = *rng.pick(&['0', '1', '2', '3', '4', 's', 'm', 'x']);
            let mut script = vec![Ev::Ch('/'), Ev::Ch(q)];
            if rng.chance(0.5) {
                script.push(Ev::Enter);
            }
            for _ in 0..rng.usize(1, 6) {
                script.push(match rng.below(6) {
                    0 | 1 => Ev::Down,
                    2 => Ev::Up,
                    3 => Ev::Ch('j'),
                    4 => Ev::Ch('k'),
                    _ => Ev::ScrollDown,
                });
            }
            for ev in script {
                events.push(TimedEv { at_ns: t, ev });
                t += rng.range(1_000_000, 400_000_000);
            }
        }
        let mut t = 0;
        while t < span_ns {
            events.push(TimedEv { at_ns: t, ev: Ev::Tick });
            t += tick_ns;
        }
        // stable order: by time; at equal times the generated order decides
        // (this is the race of the real reader's select!)
        let first_is_key = rng.chance(0.5);
        events.sort_by_key(|e| (e.at_ns, if first_is_key { (e.ev == Ev::Tick) as u8 } else { (e.ev != Ev::Tick) as u8 }));
        // (1 session in 50 has more rows than the terminal is high: scrolling)
        let n_ac = if rng.chance(0.02) { rng.range(30, 200) as u8 } else { *rng.pick(&[0u8, 0, 1, 1, 2, 3, 4, 6]) };
        if n_ac > 6 {
            let mut t = span_ns / 3;
            for _ in 0..rng.usize(5, 40) {
                t += rng.range(1_000_000, 300_000_000);
                let ev = match rng.below(8) {
                    0 | 1 => Ev::PageDown,
                    2 => Ev::PageUp,
                    3 => Ev::Ch('a'),
                    4 => Ev::Ch('-'),
                    5 => Ev::Down,
                    6 => Ev::ScrollDown,
                    _ => Ev::Ch('j'),
                };
                events.push(TimedEv { at_ns: t.min(span_ns - 1), ev });
            }
            events.sort_by_key(|e| e.at_ns);
        }
        let mut feeds = Vec::new();
        for ac in 0..n_ac {
            // bursts of records separated by silences longer than the 30 s ageing
            let mut t = rng.below(span_ns / 2 + 1);
            for _ in 0..rng.usize(1, 3) {
                for _ in 0..rng.usize(if n_ac > 6 { 2 } else { 1 }, 6) {
                    feeds.push(Feed { ac, at_ns: t, kind: rng.below(6) as u8 });
                    t += rng.range(1_000_000, 2_000_000_000);
                }
                t += rng.range(1, 70) * 1_000_000_000;
            }
        }
        feeds.retain(|f| f.at_ns < span_ns);
        feeds.sort_by_key(|f| (f.at_ns, f.ac));
        let sweep_period_s = if rng.chance(0.4) { *rng.pick(&[60u32, 10, 1]) } else { 0 };
        let mut holds = Vec::new();
        if rng.chance(0.4) {
            for _ in 0..rng.usize(1, 5) {
                holds.push((rng.below(span_ns), *rng.pick(&[1_000u64, 1_000_000, 100_000_000, 2_000_000_000])));
            }
            holds.sort();
        }
        C17Plan {
            term_w,
            term_h,
            events,
            n_ac,
            feeds,
            sweep_period_s,
            expire_min: *rng.pick(&[1u64, 1, 2]),
            holds,
            sched: SchedSpec::generate(rng, 400),
        }
    }
    fn execute(&self, plan: &C17Plan) -> Outcome<C17Plan> {
        execute(plan)
    }
    fn shrink(&self, p: &C17Plan) -> Vec<C17Plan> {
        let mut out = Vec::new();
        if !p.holds.is_empty() {
            let mut q = p.clone();
            q.holds.clear();
            out.push(q);
        }
        if p.sweep_period_s != 0 {
            let mut q = p.clone();
            q.sweep_period_s = 0;
            out.push(q);
        }
        if !p.feeds.is_empty() {
            let mut q = p.clone();
            q.feeds.clear();
            q.n_ac = 0;
            out.push(q);
        }
        if p.sched.policy != 3 {
            let mut q = p.clone();
            q.sched = SchedSpec::fifo();
            out.push(q);
        }
        // drop all ticks / chunks of events
        if p.events.iter().any(|e| e.ev == Ev::Tick) {
            let mut q = p.clone();
            q.events.retain(|e| e.ev != Ev::Tick);
            out.push(q);
        }
        let n = p.events.len();
        let mut chunk = n / 2;
        while chunk >= 1 && out.len() * (n + 1) < 3_000_000 {
            let mut i = 0;
            while i < n && out.len() * (n + 1) < 3_000_000 {
                let mut q = p.clone();
                q.events.drain(i..(i + chunk).min(n));
                out.push(q);
                i += chunk;
            }
            if chunk == 1 {
                break;
            }
            chunk /= 2;
        }
        let n = p.feeds.len();
        let mut chunk = n / 2;
        while chunk >= 1 && out.len() * (n + 1) < 3_000_000 {
            let mut i = 0;
            while i < n && out.len() * (n + 1) < 3_000_000 {
                let mut q = p.clone();
                q.feeds.drain(i..(i + chunk).min(n));
                out.push(q);
                i += chunk;
            }
            if chunk == 1 {
                break;
            }
            chunk /= 2;
        }
        if (p.term_w, p.term_h) != (80, 24) {
            let mut q = p.clone();
            q.term_w = 80;
            q.term_h = 24;
            out.push(q);
        }
        if p.events.iter().any(|e| e.at_ns != 0) {
            let mut q = p.clone();
            for e in q.events.iter_mut() {
                e.at_ns = 0;
            }
            out.push(q);
        }
        out
    }
    fn meta(&self) -> Meta {
        Meta {
            level: "exploration",
            rule: "One run = one seeded session: a terminal of a given size (including sizes too small for the table), a timed sequence of key presses / mouse wheel / resize / read-error events and 250 ms ticks (typed-ahead keys racing with the first tick), 0-6 aircraft whose records arrive through the real update_snapshot, age out after 30 s, are swept by the expiry task and come back, a lock-holder, all interleaved by the seeded scheduler; every event goes through the real update() and every loop turn through the real build_table on ratatui's TestBackend. Distinct = distinct hash of the ordered poll/timer/event/draw log. Non-trivial = at least one key event was handled AND (a row appeared or disappeared, or a resize / lock hold / sweep / typed-ahead race occurred).",
            components: vec![
                ("jet1090::update (event handler) and Jet1090::next/previous/home", "real"),
                ("jet1090::table::build_table + ratatui Table/Scrollbar/Paragraph on TestBackend", "real"),
                ("jet1090::snapshot::update_snapshot (rows)", "real"),
                ("Jet1090 state behind Arc<tokio::sync::Mutex>", "real"),
                ("row ageing clock (hook H5)", "real code, simulated clock"),
                ("terminal device (crossterm EventStream)", "stub (timed script of keys, mouse wheel, resizes, read errors)"),
                ("terminal", "stub (ratatui TestBackend)"),
            ]
            .into_iter()
            .chain(super::realtui::components())
            .collect(),
            assumptions: vec![
                "selection range is demanded after update() when it held before update() (rows are recomputed by the draw, not by the handler); a panic is a violation from any reachable state",
                "the documented key map is the one of main.rs:635-657 / the help line of the table",
            ],
            fault_kinds: vec!["key_before_first_draw", "resize", "tiny_terminal", "read_error", "lock_hold", "expiry_sweep", "row_aged_out", "mouse_wheel", "clock_step_back", "clock_step_forward"],
            probes: vec![
                "updates",
                "draws",
                "draws_with_rows",
                "nav_on_empty_table",
                "nav_on_nonempty_table",
                "wrap_around",
                "search_mode_entered",
                "quit_by_key",
                "selection_out_of_range_after_draw",
                "rows_disappeared_while_selected",
                "sort_key_changed",
                "max_rows",
                "rows_read_back_from_screen",
                "screen_rows_differ_from_item_list",
                "search_hides_some_rows",
                "search_text_differs_from_plain_editing",
            ],
        }
    }
    fn sample(&self, p: &C17Plan) -> serde_json::Value {
        let mut q = p.clone();
        let n = q.events.len();
        q.events.retain(|e| e.ev != Ev::Tick);
        q.events.truncate(25);
        let mut v = serde_json::to_value(&q).unwrap();
        v["events_total_including_ticks"] = serde_json::json!(n);
        v
    }
}

#[derive(Clone, Debug, PartialEq)]
struct Flags {
    quit: bool,
    search: bool,
    sort: u8,
    asc: bool,
    query: String,
}

fn sort_code(k: &SortKey) -> u8 {
    match k {
        SortKey::CALLSIGN => 0,
        SortKey::ALTITUDE => 1,
        SortKey::VRATE => 2,
        SortKey::COUNT => 3,
        SortKey::FIRST => 4,
        SortKey::LAST => 5,
    }
}

fn flags_of(a: &Jet1090) -> Flags {
    Flags {
        quit: a.should_quit,
        search: a.is_search_mode,
        sort: sort_code(&a.sort_key),
        asc: a.sort_asc,
        query: a.search_query.clone(),
    }
}

/// The flags the property names: quit, search mode, sort key (with its order).
/// The text of the search pattern is not one of them: how the prompt edits its
/// text is the application's business (it is compared too, but a difference is
/// only counted).
fn flags_differ(a: &Flags, b: &Flags) -> bool {
    a.quit != b.quit || a.search != b.search || a.sort != b.sort || a.asc != b.asc
}

/// the documented key map (specification of clause 3)
fn model(mut f: Flags, code: &KeyCode) -> Flags {
    match (f.search, code) {
        (true, KeyCode::Char(c)) => f.query.push(*c),
        (true, KeyCode::Backspace) => {
            f.query.pop();
        }
        (true, KeyCode::Enter) => f.search = false,
        (true, KeyCode::Esc) => {
            f.search = false;
            f.query.clear();
        }
        (false, KeyCode::Char('q')) | (false, KeyCode::Esc) => f.quit = true,
        (false, KeyCode::Char('a')) => f.sort = 1,
        (false, KeyCode::Char('c')) => f.sort = 0,
        (false, KeyCode::Char('v')) => f.sort = 2,
        (false, KeyCode::Char('.')) => f.sort = 3,
        (false, KeyCode::Char('f')) => f.sort = 4,
        (false, KeyCode::Char('l')) => f.sort = 5,
        (false, KeyCode::Char('-')) => f.asc = !f.asc,
        (false, KeyCode::Char('/')) => f.search = true,
        _ => {}
    }
    f
}

/// `shown` = number of rows the last draw actually put on the terminal (read
/// back from the rendered frame), when it could be read; otherwise the
/// application's own row list is the table
fn in_range(a: &Jet1090, shown: Option<usize>) -> bool {
    let n = shown.unwrap_or(a.items.len());
    a.state.selected().map_or(true, |i| if n == 0 { i == 0 } else { i < n })
}

/// number N of the "jet1090 (N aircraft)" title in the rendered frame
fn rows_on_screen(buf: &ratatui::buffer::Buffer) -> Option<usize> {
    let area = buf.area;
    for y in (0..area.height).rev() {
        let mut line = String::new();
        for x in 0..area.width {
            if let Some(c) = buf.cell((x, y)) {
                line.push_str(c.symbol());
            }
        }
        if let Some(i) = line.find("jet1090 (") {
            let rest = &line[i + 9..];
            if let Some(j) = rest.find(" aircraft)") {
                return rest[..j].trim().parse::<usize>().ok();
            }
        }
    }
    None
}

pub struct Shared {
    pub viol: Option<Violation>,
    pub counters: BTreeMap<&'static str, u64>,
    pub drew_once: bool,
    pub max_rows: u64,
    pub keys_handled: u64,
    pub quit_seen_at_step: Option<u64>,
    pub tui_ended: bool,
    pub perturbed: bool,
}
impl Shared {
    pub fn new() -> Shared {
        Shared {
            viol: None,
            counters: BTreeMap::new(),
            drew_once: false,
            max_rows: 0,
            keys_handled: 0,
            quit_seen_at_step: None,
            tui_ended: false,
            perturbed: false,
        }
    }
    pub fn count(&mut self, k: &'static str) {
        *self.counters.entry(k).or_insert(0) += 1;
    }
    pub fn set(&mut self, v: Violation) {
        if self.viol.is_none() {
            self.viol = Some(v);
        }
    }
}

pub fn modifiers_of(ev: &Ev) -> KeyModifiers {
    match ev {
        Ev::Mod(_, m) => KeyModifiers::from_bits_truncate(((*m & 1) * KeyModifiers::SHIFT.bits()) | (((*m >> 1) & 1) * KeyModifiers::CONTROL.bits()) | (((*m >> 2) & 1) * KeyModifiers::ALT.bits())),
        _ => KeyModifiers::NONE,
    }
}

pub fn keycode_of(ev: &Ev) -> Option<KeyCode> {
    Some(match ev {
        Ev::Ch(c) => KeyCode::Char(*c),
        Ev::Mod(c, _) => KeyCode::Char(*c),
        Ev::Esc => KeyCode::Esc,
        Ev::Enter => KeyCode::Enter,
        Ev::Backspace => KeyCode::Backspace,
        Ev::Up => KeyCode::Up,
        Ev::Down => KeyCode::Down,
        Ev::Home => KeyCode::Home,
        Ev::PageUp => KeyCode::PageUp,
        Ev::PageDown => KeyCode::PageDown,
        Ev::Tab => KeyCode::Tab,
        Ev::ScrollUp => KeyCode::Char('k'),
        Ev::ScrollDown => KeyCode::Char('j'),
        // (the event reader hands on key presses only)
        Ev::Term(n) => match term_event(*n) {
            TermEv::Press(code) => code,
            _ => return None,
        },
        _ => return None,
    })
}

fn key_name(code: &KeyCode) -> String {
    match code {
        KeyCode::Char(c) => format!("'{}'", c),
        other => format!("{:?}", other),
    }
}

// ---------------------------------------------------------------- the oracle
// around the two real calls of the terminal task. Both the re-stated loop and
// the loop compiled from the repository's own text (realtui.rs) go through
// these two functions.

pub struct TuiHook {
    pub shared: Rc<RefCell<Shared>>,
    /// rows put on the screen by the last draw, read back from the frame
    pub shown: Option<usize>,
}

thread_local! {
    pub static TUI_HOOK: RefCell<Option<TuiHook>> = const { RefCell::new(None) };
}

fn hook_shared() -> Rc<RefCell<Shared>> {
    TUI_HOOK.with(|h| h.borrow().as_ref().expect("TUI hook installed").shared.clone())
}
fn hook_shown() -> Option<usize> {
    TUI_HOOK.with(|h| h.borrow().as_ref().and_then(|h| h.shown))
}

/// The real `update()` with the oracle of clauses 1-3 around it. A panic of the
/// handler is recorded as a violation and then resumed (the task dies, as it
/// would).
pub fn hooked_update(g: &mut tokio::sync::MutexGuard<'_, Jet1090>, event: Event) -> std::io::Result<()> {
    let sh = hook_shared();
    let shown = hook_shown();
    let pre_ok = in_range(g, shown);
    let pre_flags = flags_of(g);
    let n = shown.unwrap_or(g.items.len());
    let sel = g.state.selected();
    let key = match &event {
        Event::Key(k) => Some(k.code),
        _ => None,
    };
    if let Some(code) = &key {
        let mut s = sh.borrow_mut();
        s.keys_handled += 1;
        if !s.drew_once {
            s.count("key_before_first_draw");
            s.perturbed = true;
        }
        let nav = matches!(code, KeyCode::Char('j') | KeyCode::Char('k') | KeyCode::Up | KeyCode::Down) && (!pre_flags.search || matches!(code, KeyCode::Up | KeyCode::Down));
        if nav {
            if n == 0 {
                s.count("nav_on_empty_table");
            } else {
                s.count("nav_on_nonempty_table");
                if sel == Some(n - 1) || sel == Some(0) {
                    s.count("wrap_around");
                }
            }
        }
    }
    if matches!(event, Event::Error) {
        sh.borrow_mut().count("read_error_handled");
    }
    exec::log_u64(0x0E00_0000 | key.map(|k| crate_hash_key(&k)).unwrap_or(0));
    sh.borrow_mut().count("updates");
    let what = key.as_ref().map(key_name).unwrap_or("tick".into());
    let r = std::panic::catch_unwind(std::panic::AssertUnwindSafe(|| exec::catch("update", || crate::update(g, event))));
    let r = match r {
        Ok(r) => r,
        Err(e) => std::panic::resume_unwind(e),
    };
    match r {
        Err(p) => {
            exec::trace(|| format!("update({}) PANIC {}:{} {}", what, p.file, p.line, p.msg));
            if p.file.contains("/verif/") || p.env_limit() {
                sh.borrow_mut().set(Violation::new("harness", "driver-panic", format!("{}:{} {}", p.file, p.line, p.msg)));
            } else {
                sh.borrow_mut().set(Violation::new(
                    "c17.1-panic",
                    format!("update:{}", p.short_loc()),
                    format!("handling key {} with {} rows displayed and selection {:?} panicked at {}:{}: {}", what, n, sel, p.file, p.line, p.msg),
                ));
            }
            // the terminal task dies, as it would
            std::panic::resume_unwind(Box::new(format!("update() panicked at {}:{}: {}", p.file, p.line, p.msg)));
        }
        Ok(Err(e)) => return Err(e),
        Ok(Ok(())) => {}
    }
    // clause 2: selection in range afterwards (given it was before)
    if pre_ok && !in_range(g, shown) {
        sh.borrow_mut().set(Violation::new(
            "c17.2-selection",
            format!("after-{}", if n == 0 { "key-on-empty-table" } else { "key-on-nonempty-table" }),
            format!("after key {} the selection is {:?} with {} rows displayed (it was {:?})", what, g.state.selected(), shown.unwrap_or(g.items.len()), sel),
        ));
    }
    // clause 3: flags follow the documented key map
    let want = match &key {
        Some(code) => model(pre_flags.clone(), code),
        None => pre_flags.clone(),
    };
    let got = flags_of(g);
    if !flags_differ(&got, &want) && got.query != want.query {
        sh.borrow_mut().count("search_text_differs_from_plain_editing");
    }
    if flags_differ(&got, &want) {
        let field = if got.quit != want.quit {
            "should_quit"
        } else if got.search != want.search {
            "is_search_mode"
        } else if got.sort != want.sort {
            "sort_key"
        } else {
            "sort_asc"
        };
        sh.borrow_mut().set(Violation::new(
            "c17.3-flags",
            field.to_string(),
            format!("key {} in {} mode: flags became {:?}, the documented key map gives {:?}", if key.is_some() { what.clone() } else { "tick/error".to_string() }, if pre_flags.search { "search" } else { "normal" }, got, want),
        ));
    }
    {
        let mut s = sh.borrow_mut();
        if got.search && !pre_flags.search {
            s.count("search_mode_entered");
        }
        if got.sort != pre_flags.sort {
            s.count("sort_key_changed");
        }
        if got.quit && !pre_flags.quit {
            s.count("quit_by_key");
            s.quit_seen_at_step = Some(exec::step());
        }
    }
    Ok(())
}

/// The real `build_table()` with the bookkeeping and the after-draw clause.
pub fn hooked_draw(frame: &mut ratatui::Frame, g: &mut Jet1090) {
    let sh = hook_shared();
    let before_rows = g.items.len();
    let sel_before = g.state.selected();
    let area = frame.area();
    let r = exec::catch("draw", || crate::table::build_table(frame, g));
    if let Err(p) = r {
        if p.file.contains("/verif/") || p.env_limit() {
            sh.borrow_mut().set(Violation::new("harness", "driver-panic", format!("{}:{} {}", p.file, p.line, p.msg)));
        } else {
            sh.borrow_mut().set(Violation::new(
                "c17.1-panic",
                format!("draw:{}", p.short_loc()),
                format!("drawing the table on a {}x{} terminal (width flag {}) panicked at {}:{}: {}", area.width, area.height, g.width, p.file, p.line, p.msg),
            ));
        }
        std::panic::resume_unwind(Box::new(format!("build_table() panicked at {}:{}: {}", p.file, p.line, p.msg)));
    }
    let shown = rows_on_screen(frame.buffer_mut());
    TUI_HOOK.with(|h| {
        if let Some(h) = h.borrow_mut().as_mut() {
            h.shown = shown;
        }
    });
    let mut s = sh.borrow_mut();
    s.drew_once = true;
    s.count("draws");
    let rows = g.items.len() as u64;
    if rows > 0 {
        s.count("draws_with_rows");
    }
    if rows > s.max_rows {
        s.max_rows = rows;
    }
    if (rows as usize) < before_rows {
        s.count("row_aged_out");
        s.perturbed = true;
        if sel_before.map_or(false, |i| i >= rows as usize) {
            s.count("rows_disappeared_while_selected");
        }
    }
    if (rows as usize) > before_rows {
        s.perturbed = true;
    }
    if shown.is_some() {
        s.count("rows_read_back_from_screen");
        if shown != Some(g.items.len()) {
            s.count("screen_rows_differ_from_item_list");
        }
    }
    if !g.search_query.is_empty() && shown.map_or(false, |n| n > 0 && n < g.state_vectors.len()) {
        s.count("search_hides_some_rows");
    }
    if !in_range(g, shown) {
        // the draw is part of handling the event (same loop turn):
        // "afterwards the selected row index is 0 when the table is
        // empty and otherwise less than the number of rows"
        s.count("selection_out_of_range_after_draw");
        let n = shown.unwrap_or(g.items.len());
        s.set(Violation::new(
            "c17.2-selection",
            format!("after-draw-of-{}-table", if n == 0 { "empty" } else { "nonempty" }),
            format!("after the draw that follows the event the selection is {:?} with {} rows displayed (before the draw: {:?} with {} rows)", g.state.selected(), n, sel_before, before_rows),
        ));
    }
    if area.width < 5 || area.height < 4 {
        s.count("tiny_terminal");
    }
    exec::log_u64(0x0F00_0000 | g.items.len() as u64);
}

/// Spawn the event reader and the terminal task. When the closures of main() and
/// of tui.rs could be taken from the repository's own text (realtui.rs) those
/// run; otherwise the re-stated versions below.
pub fn spawn_tui(
    sim: &mut Sim,
    app: &Arc<Mutex<Jet1090>>,
    events: &[TimedEv],
    term_w: u16,
    term_h: u16,
    shared: &Rc<RefCell<Shared>>,
) -> exec::TaskId {
    TUI_HOOK.with(|h| *h.borrow_mut() = Some(TuiHook { shared: shared.clone(), shown: None }));
    if super::realtui::available() {
        return super::realtui::spawn(sim, app, events, term_w, term_h, shared);
    }
    spawn_tui_stub(sim, app, events, term_w, term_h, shared)
}

/// Event reader (stub) and terminal task (re-stated loop of main.rs:346-362
/// around the real update() and build_table()).
pub fn spawn_tui_stub(
    sim: &mut Sim,
    app: &Arc<Mutex<Jet1090>>,
    events: &[TimedEv],
    term_w: u16,
    term_h: u16,
    shared: &Rc<RefCell<Shared>>,
) -> exec::TaskId {
    let app = app.clone();
    let shared = shared.clone();
    enum ToTui {
        Event(Event),
        Resize(u16, u16),
    }
    let (ev_tx, mut ev_rx) = tokio::sync::mpsc::unbounded_channel::<ToTui>();
    {
        let events = events.to_vec();
        let mut width = term_w;
        let sh = shared.clone();
        let app_q = app.clone();
        sim.spawn("event-reader(stub)", async move {
            for te in events {
                exec::sleep_until_ns(te.at_ns).await;
                let msg = match &te.ev {
                    Ev::Tick => Some(ToTui::Event(Event::Tick(width))),
                    Ev::Error => {
                        sh.borrow_mut().count("read_error");
                        Some(ToTui::Event(Event::Error))
                    }
                    Ev::Resize(w, h) => {
                        width = *w;
                        sh.borrow_mut().count("resize");
                        Some(ToTui::Resize(*w, *h))
                    }
                    Ev::ClockStep(by) => {
                        exec::set_wall_offset_ns(*by as i64 * 1_000_000_000);
                        exec::log_u64(0xC10C ^ ((*by as i64 as u64) << 16));
                        let mut s = sh.borrow_mut();
                        s.count(if *by < 0 { "clock_step_back" } else { "clock_step_forward" });
                        s.perturbed = true;
                        None
                    }
                    other => {
                        if matches!(other, Ev::ScrollUp | Ev::ScrollDown) {
                            sh.borrow_mut().count("mouse_wheel");
                        }
                        if matches!(other, Ev::Term(_)) {
                            sh.borrow_mut().count("other_terminal_event");
                        }
                        keycode_of(other).map(|c| ToTui::Event(Event::Key(KeyEvent::new(c, modifiers_of(other)))))
                    }
                };
                if let Some(m) = msg {
                    if ev_tx.send(m).is_err() {
                        return;
                    }
                }
            }
            // end of session: leave search mode if needed, then quit
            exec::sleep_ns(1_000_000).await;
            loop {
                let (quit, search) = {
                    let g = app_q.lock().await;
                    (g.should_quit, g.is_search_mode)
                };
                if quit {
                    break;
                }
                let code = if search { KeyCode::Esc } else { KeyCode::Char('q') };
                if ev_tx.send(ToTui::Event(Event::Key(KeyEvent::new(code, KeyModifiers::NONE)))).is_err() {
                    break;
                }
                exec::sleep_ns(300_000_000).await;
            }
        });
    }
    let app_tui = app.clone();
    let sh = shared.clone();
    let (w, h) = (term_w, term_h);
    sim.spawn("tui-loop(stub)+update/build_table(real)", async move {
        let mut terminal = match Terminal::new(TestBackend::new(w, h)) {
            Ok(t) => t,
            Err(_) => return,
        };
        loop {
            match ev_rx.recv().await {
                Some(ToTui::Resize(w, h)) => {
                    terminal.backend_mut().resize(w, h);
                    continue;
                }
                Some(ToTui::Event(event)) => {
                    if hooked_update(&mut app_tui.lock().await, event).is_err() {
                        return;
                    }
                }
                None => break, // event reader gone
            }
            let mut g = app_tui.lock().await;
            if g.should_quit {
                break;
            }
            if g.should_clear {
                let _ = terminal.clear();
                g.should_clear = false;
            }
            if terminal.draw(|frame| hooked_draw(frame, &mut g)).is_err() {
                return;
            }
        }
        sh.borrow_mut().tui_ended = true;
    })
}

/// The expiry sweep of main.rs:368-403 (a closure inlined in main(), re-stated;
/// the 60 s period is a knob, the clock is the simulated one).
pub fn spawn_sweep(sim: &mut Sim, app: &Arc<Mutex<Jet1090>>, period_s: u32, minutes: u64, horizon_ns: u64, shared: &Rc<RefCell<Shared>>) {
    let app_exp = app.clone();
    let period = period_s as u64 * 1_000_000_000;
    let sh = shared.clone();
    let horizon = horizon_ns;
    sim.spawn("expiry-sweep(stub)", async move {
        loop {
            exec::sleep_ns(period).await;
            if exec::now_ns() > horizon {
                break;
            }
            let mut app = app_exp.lock().await;
            let now = rs1090::decode::time::now_in_s();
            let remove_keys: Vec<String> = app
                .state_vectors
                .iter()
                .filter(|(_k, v)| now > v.cur.lastseen + minutes * 60)
                .map(|(k, _)| k.to_string())
                .collect();
            for k in remove_keys {
                app.state_vectors.remove(&k);
                sh.borrow_mut().perturbed = true;
                sh.borrow_mut().count("expired_by_sweep");
            }
            let _ = app
                .state_vectors
                .iter_mut()
                .map(|(_key, value)| value.hist.retain(|elt| now < (elt.timestamp as u64) + minutes * 60))
                .collect::<Vec<()>>();
            sh.borrow_mut().count("expiry_sweep");
        }
    });
}

pub fn execute(plan: &C17Plan) -> Outcome<C17Plan> {
    let mut out = Outcome::new();
    out.evaluations = 1;
    out.sched_policy = plan.sched.policy_name();
    let mut sim = Sim::new(&plan.sched);
    let app = Arc::new(Mutex::new(app::new_app(plan.term_w)));
    let shared = Rc::new(RefCell::new(Shared::new()));

    super::realtui::reset();
    let tui_task = spawn_tui(&mut sim, &app, &plan.events, plan.term_w, plan.term_h, &shared);

    // ---- decoder: rows appear through the real update_snapshot --------------
    {
        let app_dec = app.clone();
        let feeds = plan.feeds.clone();
        let n_ac = plan.n_ac.max(1);
        sim.spawn("decoder(stub)+update_snapshot(real)", async move {
            let db = BTreeMap::new();
            for f in feeds {
                exec::sleep_until_ns(f.at_ns).await;
                let ai = (f.ac % n_ac) as u32;
                let icao = 0x400000 + 0x1111 * (ai + 1);
                let frame = match f.kind {
                    0 => world::df17_identification(icao, 4, 3, &format!("SIM{:04}", ai)),
                    1 => world::df17_airborne_position(icao, 11, if n_ac > 6 { 34000 + 25 * ((ai as i32 * 37) % 61) } else { 10000 + 1000 * ai as i32 }, 45.0 + (ai % 40) as f64, 5.0, false).0,
                    2 => world::df17_velocity_gs(icao, 100 + ai as i32, 200, 640),
                    // operational status / target state with arbitrary contents
                    // (reserved NACp values, versions, ... as mis-configured
                    // transponders send them)
                    4 | 5 => {
                        let mut h = Fnv::new();
                        h.u64(f.at_ns ^ ((ai as u64) << 40));
                        let tc: u64 = if f.kind == 4 { 31 } else { 29 };
                        world::df17(icao, 5, (tc << 51) | (h.0 & ((1 << 51) - 1)))
                    }
                    _ => world::df4(icao, 0, if n_ac > 6 { 34000 + 25 * ((ai as i32 * 37) % 61) } else { 12000 + 500 * ai as i32 }),
                };
                let Ok(message) = Message::try_from(frame.as_slice()) else { continue };
                let ts = exec::now_unix_f64();
                let mut msg = TimedMessage {
                    timestamp: ts,
                    frame,
                    message: Some(message),
                    metadata: vec![SensorMetadata {
                        system_timestamp: ts,
                        gnss_timestamp: None,
                        nanoseconds: None,
                        rssi: None,
                        serial: 1,
                        name: Some("sim".into()),
                    }],
                    decode_time: None,
                };
                crate::snapshot::update_snapshot(&app_dec, &mut msg, &db).await;
            }
        });
    }
    // ---- expiry sweep (re-stated from main.rs:368-403, simulated clock) -----
    if plan.sweep_period_s > 0 {
        if super::realtui::expiry_available() {
            // main()'s own expiry task (every 60 s); cancelled with the session
            super::realtui::spawn_expiry(&mut sim, &app, plan.expire_min);
            shared.borrow_mut().count("expiry_sweep");
        } else {
            let horizon = plan.events.iter().map(|e| e.at_ns).max().unwrap_or(0) + 2_000_000_000;
            spawn_sweep(&mut sim, &app, plan.sweep_period_s, plan.expire_min, horizon, &shared);
        }
    }
    // ---- lock-holder ---------------------------------------------------------
    if !plan.holds.is_empty() {
        let app_h = app.clone();
        let holds = plan.holds.clone();
        let sh = shared.clone();
        sim.spawn("lock-holder(stub)", async move {
            for (at, dur) in holds {
                exec::sleep_until_ns(at).await;
                let g = app_h.lock().await;
                {
                    let mut s = sh.borrow_mut();
                    s.count("lock_hold");
                    s.perturbed = true;
                }
                exec::sleep_ns(dur).await;
                drop(g);
            }
        });
    }

    // (the reader's own interval ticks every 250 ms of simulated time)
    let span_ns = plan.events.iter().map(|e| e.at_ns).max().unwrap_or(0);
    let cap = 8_000 + 60 * plan.events.len() as u64 + 20 * plan.feeds.len() as u64 + 16 * (span_ns / 250_000_000);
    let end = sim.run(cap, |s, id, done| {
        if done && id == tui_task {
            // the process would exit: the reader and the expiry task go with it
            super::realtui::cancel_endless(s);
        }
        true
    });
    out.steps = sim.steps;
    out.sim_ns = exec::now_ns();

    let mut sh = shared.borrow_mut();
    for p in &sim.panics {
        if p.file.contains("/verif/") || p.env_limit() {
            out.harness_error = Some(format!("driver panic in task {} at {}:{}: {}", p.task, p.file, p.line, p.msg));
        } else {
            let v = Violation::new("c17.1-panic", format!("task:{}", p.short_loc()), format!("task {} panicked at {}:{}: {}", p.task, p.file, p.line, p.msg));
            sh.set(v);
        }
    }
    if let Some(v) = &sh.viol {
        if v.class == "harness" {
            out.harness_error = Some(v.detail.clone());
            sh.viol = None;
        }
    }
    // clause 4: bounded liveness — after q / Esc outside search mode the loop ends
    if sh.viol.is_none() && out.harness_error.is_none() {
        if end == RunEnd::StepCap {
            sh.set(Violation::new("c17.4-liveness", "step-cap", format!("session still running after {} steps: {:?}", cap, sim.live_tasks())));
        } else if !sh.tui_ended && !sim.is_done(tui_task) {
            let requested = sh.quit_seen_at_step.is_some();
            sh.set(Violation::new("c17.4-liveness", "tui-did-not-end", format!("the system is idle, quit was {} but the TUI loop never ended", if requested { "requested" } else { "not accepted" })));
        }
    }
    for (k, v) in sh.counters.iter() {
        out.count(k, *v);
    }
    out.count("max_rows", sh.max_rows);
    let mut sig = Fnv::new();
    sig.u64(exec::log_hash());
    out.sigs.push(sig.0);
    if sh.keys_handled > 0 && (sh.perturbed || sh.counters.contains_key("resize")) {
        out.nontrivial_sigs.push(sig.0);
    }
    out.log_hash = {
        let mut f = Fnv::new();
        f.u64(exec::log_hash());
        f.u64(sh.viol.is_some() as u64);
        f.0
    };
    {
        let mut f = Fnv::new();
        if let Ok(g) = app.try_lock() {
            f.u64(g.items.len() as u64);
            f.u64(g.state.selected().map(|i| (i as u64).wrapping_add(1)).unwrap_or(0));
            let fl = flags_of(&g);
            f.u64(fl.sort as u64 * 8 + fl.asc as u64 * 4 + fl.search as u64 * 2 + fl.quit as u64);
            f.bytes(fl.query.as_bytes());
        }
        out.oracle_states.push(f.0);
    }
    out.violation = sh.viol.take();
    out
}

fn crate_hash_key(k: &KeyCode) -> u64 {
    match k {
        KeyCode::Char(c) => *c as u64,
        KeyCode::Esc => 0x100,
        KeyCode::Enter => 0x101,
        KeyCode::Backspace => 0x102,
        KeyCode::Up => 0x103,
        KeyCode::Down => 0x104,
        KeyCode::Home => 0x105,
        KeyCode::PageUp => 0x106,
        KeyCode::PageDown => 0x107,
        _ => 0x1ff,
    }
}


// ======================================================================
// Exhaustive layer: every sequence of up to L events over the 21-symbol
// alphabet of the property {j,k,g,q,a,c,v,.,f,l,-,/,Esc,Enter,Backspace,Up,
// Down,Home,PageUp,other char,Tick} applied through the real update() and the
// real build_table() to a table of 0..3 aircraft, starting before or after the
// first draw, on an ordinary and on a tiny terminal. Depth-first over the tree
// of sequences: the UI part of the state is saved and restored around each
// child (update() and build_table() do not touch the aircraft map). One "run"
// of the batch is the subtree below one (table size, start, terminal, first
// two events) combination.

pub struct C17Seq;

#[derive(Clone, Debug, Serialize, Deserialize)]
pub struct SeqPlan {
    pub n_rows: u8,
    /// the first event arrives after the first draw (otherwise it races ahead of it)
    pub drawn_first: bool,
    pub term: (u16, u16),
    pub len_max: u8,
    /// the events every sequence of this block starts with (indices into the alphabet)
    pub prefix: Vec<u8>,
    /// exactly this sequence (replay files)
    #[serde(default, skip_serializing_if = "Option::is_none")]
    pub explicit: Option<Vec<u8>>,
}

const SEQ_ALPHABET: &[Ev] = &[
    Ev::Ch('j'),
    Ev::Ch('k'),
    Ev::Ch('g'),
    Ev::Ch('q'),
    Ev::Ch('a'),
    Ev::Ch('c'),
    Ev::Ch('v'),
    Ev::Ch('.'),
    Ev::Ch('f'),
    Ev::Ch('l'),
    Ev::Ch('-'),
    Ev::Ch('/'),
    Ev::Esc,
    Ev::Enter,
    Ev::Backspace,
    Ev::Up,
    Ev::Down,
    Ev::Home,
    Ev::PageUp,
    Ev::Ch('1'),
    Ev::Tick,
];
const SEQ_TERMS: [(u16, u16); 2] = [(120, 24), (4, 2)];

struct UiSnap {
    items: Vec<String>,
    state: ratatui::widgets::TableState,
    scroll: ratatui::widgets::ScrollbarState,
    quit: bool,
    clear: bool,
    sort: u8,
    asc: bool,
    width: u16,
    search: bool,
    query: String,
    shown: Option<usize>,
    drawn: bool,
}

fn sort_of(code: u8) -> SortKey {
    match code {
        0 => SortKey::CALLSIGN,
        1 => SortKey::ALTITUDE,
        2 => SortKey::VRATE,
        3 => SortKey::COUNT,
        4 => SortKey::FIRST,
        _ => SortKey::LAST,
    }
}

fn ui_take(a: &Jet1090, shown: Option<usize>, drawn: bool) -> UiSnap {
    UiSnap {
        items: a.items.clone(),
        state: a.state.clone(),
        scroll: a.scroll_state,
        quit: a.should_quit,
        clear: a.should_clear,
        sort: sort_code(&a.sort_key),
        asc: a.sort_asc,
        width: a.width,
        search: a.is_search_mode,
        query: a.search_query.clone(),
        shown,
        drawn,
    }
}

fn ui_restore(a: &mut Jet1090, s: &UiSnap) {
    a.items = s.items.clone();
    a.state = s.state.clone();
    a.scroll_state = s.scroll;
    a.should_quit = s.quit;
    a.should_clear = s.clear;
    a.sort_key = sort_of(s.sort);
    a.sort_asc = s.asc;
    a.width = s.width;
    a.is_search_mode = s.search;
    a.search_query = s.query.clone();
}

struct SeqCtx {
    terminal: Terminal<TestBackend>,
    width: u16,
    nodes: u64,
    states: std::collections::HashSet<u64>,
    counters: BTreeMap<&'static str, u64>,
    viol: Option<(Violation, Vec<u8>)>,
    harness: Option<String>,
}

/// one event through the real handler, judged like the TUI task of the seeded
/// scenario does; then the draw of the loop turn. Returns false when the
/// session ended (quit, panic).
fn seq_step(g: &mut tokio::sync::MutexGuard<'_, Jet1090>, cx: &mut SeqCtx, ev: &Ev, shown: &mut Option<usize>, drawn: &mut bool, path: &[u8]) -> bool {
    let event = match ev {
        Ev::Tick => Event::Tick(cx.width),
        other => Event::Key(KeyEvent::new(keycode_of(other).unwrap(), modifiers_of(other))),
    };
    let key = match &event {
        Event::Key(k) => Some(k.code),
        _ => None,
    };
    let pre_ok = in_range(g, *shown);
    let pre_flags = flags_of(g);
    let n = shown.unwrap_or(g.items.len());
    let sel = g.state.selected();
    if !*drawn && key.is_some() {
        *cx.counters.entry("key_before_first_draw").or_insert(0) += 1;
    }
    if n == 0 && matches!(key, Some(KeyCode::Char('j')) | Some(KeyCode::Char('k')) | Some(KeyCode::Up) | Some(KeyCode::Down)) {
        *cx.counters.entry("nav_on_empty_table").or_insert(0) += 1;
    }
    let what = key.as_ref().map(key_name).unwrap_or("tick".into());
    match exec::catch("update", || crate::update(g, event)) {
        Err(p) => {
            if p.file.contains("/verif/") || p.env_limit() {
                cx.harness = Some(format!("{}:{} {}", p.file, p.line, p.msg));
            } else {
                cx.viol = Some((
                    Violation::new(
                        "c17.1-panic",
                        format!("update:{}", p.short_loc()),
                        format!("handling key {} with {} rows displayed and selection {:?} panicked at {}:{}: {}", what, n, sel, p.file, p.line, p.msg),
                    ),
                    path.to_vec(),
                ));
            }
            return false;
        }
        Ok(Err(_)) => return false,
        Ok(Ok(())) => {}
    }
    if pre_ok && !in_range(g, *shown) {
        cx.viol = Some((
            Violation::new(
                "c17.2-selection",
                format!("after-{}", if n == 0 { "key-on-empty-table" } else { "key-on-nonempty-table" }),
                format!("after key {} the selection is {:?} with {} rows displayed (it was {:?})", what, g.state.selected(), shown.unwrap_or(g.items.len()), sel),
            ),
            path.to_vec(),
        ));
        return false;
    }
    let want = match &key {
        Some(code) => model(pre_flags.clone(), code),
        None => pre_flags.clone(),
    };
    let got = flags_of(g);
    if !flags_differ(&got, &want) && got.query != want.query {
        *cx.counters.entry("search_text_differs_from_plain_editing").or_insert(0) += 1;
    }
    if flags_differ(&got, &want) {
        let field = if got.quit != want.quit {
            "should_quit"
        } else if got.search != want.search {
            "is_search_mode"
        } else if got.sort != want.sort {
            "sort_key"
        } else if got.asc != want.asc {
            "sort_asc"
        } else {
            "search_query"
        };
        cx.viol = Some((
            Violation::new("c17.3-flags", field.to_string(), format!("key {} in {} mode: flags became {:?}, the documented key map gives {:?}", what, if pre_flags.search { "search" } else { "normal" }, got, want)),
            path.to_vec(),
        ));
        return false;
    }
    if g.should_quit {
        return false;
    }
    if g.should_clear {
        let _ = cx.terminal.clear();
        g.should_clear = false;
    }
    let r = exec::catch("draw", || cx.terminal.draw(|frame| crate::table::build_table(frame, g)).map(|_| ()));
    if let Err(p) = r {
        if p.file.contains("/verif/") || p.env_limit() {
            cx.harness = Some(format!("{}:{} {}", p.file, p.line, p.msg));
        } else {
            let sz = cx.terminal.backend().buffer().area;
            cx.viol = Some((
                Violation::new("c17.1-panic", format!("draw:{}", p.short_loc()), format!("drawing the table on a {}x{} terminal panicked at {}:{}: {}", sz.width, sz.height, p.file, p.line, p.msg)),
                path.to_vec(),
            ));
        }
        return false;
    }
    *drawn = true;
    *shown = rows_on_screen(cx.terminal.backend().buffer());
    if !in_range(g, *shown) {
        *cx.counters.entry("selection_out_of_range_after_draw").or_insert(0) += 1;
        let n = shown.unwrap_or(g.items.len());
        cx.viol = Some((
            Violation::new(
                "c17.2-selection",
                format!("after-draw-of-{}-table", if n == 0 { "empty" } else { "nonempty" }),
                format!("after key {} and the draw that follows it the selection is {:?} with {} rows displayed", what, g.state.selected(), n),
            ),
            path.to_vec(),
        ));
        return false;
    }
    true
}

fn seq_dfs(g: &mut tokio::sync::MutexGuard<'_, Jet1090>, cx: &mut SeqCtx, snap: &UiSnap, depth: u8, len_max: u8, path: &mut Vec<u8>) {
    for (ki, ev) in SEQ_ALPHABET.iter().enumerate() {
        if cx.viol.is_some() || cx.harness.is_some() {
            return;
        }
        ui_restore(g, snap);
        let mut shown = snap.shown;
        let mut drawn = snap.drawn;
        path.push(ki as u8);
        cx.nodes += 1;
        let alive = seq_step(g, cx, ev, &mut shown, &mut drawn, path);
        {
            let mut f = Fnv::new();
            f.u64(g.items.len() as u64);
            f.u64(g.state.selected().map(|i| (i as u64).wrapping_add(1)).unwrap_or(0));
            let fl = flags_of(g);
            f.u64(fl.sort as u64 * 8 + fl.asc as u64 * 4 + fl.search as u64 * 2 + fl.quit as u64);
            f.bytes(fl.query.as_bytes());
            cx.states.insert(f.0);
        }
        if alive && depth + 1 < len_max {
            let s2 = ui_take(g, shown, drawn);
            seq_dfs(g, cx, &s2, depth + 1, len_max, path);
        }
        path.pop();
    }
}

impl Scenario for C17Seq {
    type Plan = SeqPlan;
    fn id(&self) -> &'static str {
        "C17"
    }
    fn kind(&self) -> &'static str {
        "sequences"
    }
    fn seed_tag(&self) -> String {
        "C17/sequences".to_string()
    }
    fn runs(&self, _tier: Tier) -> u64 {
        // table sizes x start x terminals x first two events
        4 * 2 * SEQ_TERMS.len() as u64 * (SEQ_ALPHABET.len() * SEQ_ALPHABET.len()) as u64
    }
    fn generate(&self, _rng: &mut Rng, tier: Tier, idx: u64) -> SeqPlan {
        let a = SEQ_ALPHABET.len() as u64;
        let mut i = idx;
        let k2 = (i % a) as u8;
        i /= a;
        let k1 = (i % a) as u8;
        i /= a;
        let term = SEQ_TERMS[(i % SEQ_TERMS.len() as u64) as usize];
        i /= SEQ_TERMS.len() as u64;
        let drawn_first = i % 2 == 1;
        i /= 2;
        SeqPlan { n_rows: (i % 4) as u8, drawn_first, term, len_max: if tier == Tier::Quick { 4 } else { 5 }, prefix: vec![k1, k2], explicit: None }
    }
    fn execute(&self, plan: &SeqPlan) -> Outcome<SeqPlan> {
        let mut out: Outcome<SeqPlan> = Outcome::new();
        exec::reset_world();
        exec::install_panic_hook();
        let app = Arc::new(Mutex::new(app::new_app(plan.term.0)));
        // rows through the real update_snapshot, stamped now (visible: younger than 30 s)
        {
            let db = BTreeMap::new();
            for ai in 0..plan.n_rows as u32 {
                let icao = 0x400000 + 0x1111 * (ai + 1);
                for frame in [world::df17_identification(icao, 4, 3, &format!("SIM{:04}", ai)), world::df4(icao, 0, 12000 + 500 * ai as i32)] {
                    let Ok(message) = Message::try_from(frame.as_slice()) else { continue };
                    let ts = exec::now_unix_f64();
                    let mut msg = TimedMessage { timestamp: ts, frame, message: Some(message), metadata: vec![], decode_time: None };
                    app::now_or_never(crate::snapshot::update_snapshot(&app, &mut msg, &db));
                }
            }
        }
        let mut cx = SeqCtx {
            terminal: Terminal::new(TestBackend::new(plan.term.0, plan.term.1)).unwrap(),
            width: plan.term.0,
            nodes: 0,
            states: std::collections::HashSet::new(),
            counters: BTreeMap::new(),
            viol: None,
            harness: None,
        };
        let mut g = app.try_lock().unwrap();
        let mut shown: Option<usize> = None;
        let mut drawn = false;
        if plan.drawn_first {
            // the immediate first tick won the race: one update + draw before any key
            let mut p = Vec::new();
            seq_step(&mut g, &mut cx, &Ev::Tick, &mut shown, &mut drawn, &mut p);
        }
        let seq: Vec<u8> = plan.explicit.clone().unwrap_or_else(|| plan.prefix.clone());
        let mut path: Vec<u8> = Vec::new();
        let mut alive = true;
        for &k in &seq {
            if !alive || cx.viol.is_some() {
                break;
            }
            path.push(k);
            cx.nodes += 1;
            alive = seq_step(&mut g, &mut cx, &SEQ_ALPHABET[k as usize % SEQ_ALPHABET.len()], &mut shown, &mut drawn, &path);
        }
        if plan.explicit.is_none() && alive && cx.viol.is_none() && (seq.len() as u8) < plan.len_max {
            let snap = ui_take(&g, shown, drawn);
            seq_dfs(&mut g, &mut cx, &snap, seq.len() as u8, plan.len_max, &mut path);
        }
        drop(g);
        out.evaluations = cx.nodes.max(1);
        out.steps = cx.nodes;
        for (k, v) in &cx.counters {
            out.count(k, *v);
        }
        out.count("sequences_prefix_nodes", cx.nodes);
        if plan.term.0 < 5 {
            out.count("tiny_terminal", 1);
        }
        out.oracle_states = cx.states.iter().copied().collect();
        out.oracle_states.sort();
        let mut f = Fnv::new();
        f.u64(plan.n_rows as u64);
        f.u64(plan.drawn_first as u64);
        f.u64(plan.term.0 as u64);
        for k in &plan.prefix {
            f.u64(*k as u64);
        }
        out.sigs.push(f.0);
        out.nontrivial_sigs.push(f.0);
        out.log_hash = {
            let mut h = Fnv::new();
            h.u64(cx.nodes);
            for s in &out.oracle_states {
                h.u64(*s);
            }
            h.u64(cx.viol.is_some() as u64);
            h.0
        };
        if let Some(e) = cx.harness {
            out.harness_error = Some(e);
        }
        if let Some((v, p)) = cx.viol {
            if plan.explicit.is_none() {
                // The depth-first search restores the UI part of the state field by
                // field; a field the driver does not know (added by a change to
                // /repo) would leak between sibling sequences. A violation is only
                // reported when the sequence fails on a fresh state as well;
                // otherwise the block is enumerated again, every sequence from a
                // fresh state.
                let straight = self.execute(&SeqPlan { explicit: Some(p.clone()), ..plan.clone() });
                if straight.violation.as_ref().map(|x| x.key()) == Some(v.key()) {
                    out.violation = Some(v);
                    out.narrowed = Some(SeqPlan { explicit: Some(p), ..plan.clone() });
                } else {
                    out.count("restore_incomplete_block_replayed_from_scratch", 1);
                    let a = SEQ_ALPHABET.len();
                    let mut stack: Vec<Vec<u8>> = vec![plan.prefix.clone()];
                    while let Some(path) = stack.pop() {
                        let r = self.execute(&SeqPlan { explicit: Some(path.clone()), ..plan.clone() });
                        out.evaluations += 1;
                        if let Some(e) = r.harness_error {
                            out.harness_error = Some(e);
                            break;
                        }
                        if let Some(v2) = r.violation {
                            out.violation = Some(v2);
                            out.narrowed = Some(SeqPlan { explicit: Some(path), ..plan.clone() });
                            break;
                        }
                        if (path.len() as u8) < plan.len_max {
                            for k in (0..a).rev() {
                                let mut q = path.clone();
                                q.push(k as u8);
                                stack.push(q);
                            }
                        }
                    }
                }
            } else {
                out.violation = Some(v);
                out.narrowed = Some(SeqPlan { explicit: Some(p), ..plan.clone() });
            }
        }
        out
    }
    fn shrink(&self, p: &SeqPlan) -> Vec<SeqPlan> {
        let mut out = Vec::new();
        if let Some(e) = &p.explicit {
            for i in 0..e.len() {
                let mut q = e.clone();
                q.remove(i);
                out.push(SeqPlan { explicit: Some(q), ..p.clone() });
            }
            if p.drawn_first {
                out.push(SeqPlan { drawn_first: false, ..p.clone() });
            }
            if p.n_rows > 0 {
                out.push(SeqPlan { n_rows: p.n_rows - 1, ..p.clone() });
            }
        }
        out
    }
    fn exhaustive(&self, _tier: Tier) -> bool {
        true
    }
    fn meta(&self) -> Meta {
        Meta {
            level: "exploration",
            rule: "Exhaustive enumeration: every sequence of 1..L events (L = 4 quick, 5 thorough) over the property's 21-symbol alphabet, for tables of 0, 1, 2 and 3 aircraft, with the first event arriving before or after the first draw, on a 120x24 and on a 4x2 terminal; each event goes through the real update() and is followed by the real build_table() draw, judged after every event like the seeded scenario (panic, selection range, flag transition function). Distinct = one per (table size, start, terminal, first two events) block; the number of distinct UI states reached is reported as distinct_oracle_states.",
            components: vec![
                ("jet1090::update, Jet1090::next/previous/home", "real"),
                ("jet1090::table::build_table on ratatui TestBackend", "real"),
                ("jet1090::snapshot::update_snapshot (rows)", "real"),
                ("event source / TUI loop body", "stub (direct calls in the order of the loop: update, then draw)"),
            ],
            assumptions: vec!["the table does not change during a sequence (rows appearing, ageing and expiring between events are covered by the seeded scenario)"],
            fault_kinds: vec!["key_before_first_draw", "tiny_terminal"],
            probes: vec!["sequences_prefix_nodes", "nav_on_empty_table", "selection_out_of_range_after_draw", "restore_incomplete_block_replayed_from_scratch"],
        }
    }
}
