                let app_expire = app_exp.clone();
                loop {
                    sleep(Duration::from_secs(60)).await;
                    {
                        let mut app = app_expire.lock().await;
                        let now = SystemTime::now()
                            .duration_since(std::time::UNIX_EPOCH)
                            .expect("SystemTime before unix epoch")
                            .as_secs();

                        let remove_keys = app
                            .state_vectors
                            .iter()
                            .filter(|(_key, value)| {
                                now > value.cur.lastseen + minutes * 60
                            })
                            .map(|(key, _)| key.to_string())
                            .collect::<Vec<String>>();

                        for key in remove_keys {
                            app.state_vectors.remove(&key);
                        }

                        let _ = app
                            .state_vectors
                            .iter_mut()
                            .map(|(_key, value)| {
                                value.hist.retain(|elt| {
                                    now < (elt.timestamp as u64) + minutes * 60
                                })
                            })
                            .collect::<Vec<()>>();
                    }
                }
