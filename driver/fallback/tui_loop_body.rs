            loop {
                if let Ok(event) = events.next().await {
                    update(&mut app_tui.lock().await, event)?;
                }
                let mut app = app_tui.lock().await;
                if app.should_quit {
                    break;
                }
                if app.should_clear {
                    terminal.clear()?;
                    app.should_clear = false;
                }
                terminal.draw(|frame| table::build_table(frame, &mut app))?;
            }
            tui::restore()
