            let mut reader = crossterm::event::EventStream::new();
            let mut interval = tokio::time::interval(tick_rate);
            loop {
                let delay = interval.tick();
                let crossterm_event = reader.next().fuse();
                tokio::select! {
                  maybe_event = crossterm_event => {
                    match maybe_event {
                      Some(Ok(evt)) => {
                        match evt {
                          crossterm::event::Event::Key(key) => {
                            if key.kind == crossterm::event::KeyEventKind::Press {
                              tx.send(Event::Key(key)).unwrap();
                            }
                          },
                          crossterm::event::Event::Resize(col,_) => {width = col},
                          crossterm::event::Event::Mouse(event) => {
                            if event.kind == crossterm::event::MouseEventKind::ScrollUp {
                              tx.send(Event::Key(KeyEvent::new(crossterm::event::KeyCode::Char('k'), event.modifiers))).unwrap();
                            }
                            if event.kind == crossterm::event::MouseEventKind::ScrollDown {
                              tx.send(Event::Key(KeyEvent::new(crossterm::event::KeyCode::Char('j'), event.modifiers))).unwrap();
                            }
                          },
                          _ => {},
                        }
                      }
                      Some(Err(_)) => {
                        tx.send(Event::Error).unwrap();
                      }
                      None => {},
                    }
                  },
                  _ = delay => {
                       tx.send(Event::Tick(width)).unwrap_or(());
                  },
                }
            }
