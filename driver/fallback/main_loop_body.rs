    let update_reference = match options.update_position {
        true => Some(Box::new(|pos: &AirbornePosition| {
            pos.alt.is_some_and(|alt| alt < 5000)
        }) as Box<dyn Fn(&AirbornePosition) -> bool>),
        false => None,
    };

    let mut first_msg = true;
    while let Some(mut msg) = rx_dedup.recv().await {
        if first_msg {
            // This workaround results from soapysdr writing directly on stdout.
            // The best thing would be to not write to stdout in the first
            // place. A better workaround would be to condition that clear to
            // the first message received from rtlsdr.

            app_dec.lock().await.should_clear = true;
            first_msg = false;
        }

        if let Some(message) = &mut msg.message {
            match &mut message.df {
                ExtendedSquitterADSB(adsb) => match adsb.message {
                    ME::BDS05(_) | ME::BDS06(_) => {
                        let serial = msg
                            .metadata
                            .first()
                            .map(|meta| meta.serial)
                            .unwrap();
                        let mut reference = references[&serial];

                        decode_position(
                            &mut adsb.message,
                            msg.timestamp,
                            &adsb.icao24,
                            &mut aircraft,
                            &mut reference,
                            &update_reference,
                        );

                        // References may have been modified.
                        // With static receivers, we don't care; for dynamic ones, we may
                        // want to update the reference position.
                        if options.update_position {
                            for meta in &msg.metadata {
                                let _ =
                                    references.insert(meta.serial, reference);
                            }
                        }
                    }
                    _ => {}
                },
                ExtendedSquitterTisB { cf, .. } => match cf.me {
                    ME::BDS05(_) | ME::BDS06(_) => {
                        let serial = msg
                            .metadata
                            .first()
                            .map(|meta| meta.serial)
                            .unwrap();

                        let mut reference = references[&serial];

                        decode_position(
                            &mut cf.me,
                            msg.timestamp,
                            &cf.aa,
                            &mut aircraft,
                            &mut reference,
                            &update_reference,
                        )
                    }
                    _ => {}
                },
                _ => {}
            }
        };

        snapshot::update_snapshot(&app_dec, &mut msg, &aircraftdb).await;

        let is_in = filters::Filters::is_in(&filters, &msg);

        if let Ok(json) = serde_json::to_string(&msg) {
            if is_in {
                if options.verbose {
                    println!("{}", json);
                }

                if let Some(file) = &mut file {
                    file.write_all(json.as_bytes()).await?;
                    file.write_all("\n".as_bytes()).await?;
                }

                if let Some(c) = &mut redis_connect {
                    let _: () = c.publish(redis_topic.clone(), json).await?;
                }
            }
        }

        match options.history_expire {
            Some(0) => (),
            _ => {
                if is_in {
                    snapshot::store_history(&app_dec, msg, &aircraftdb).await
                }
            }
        }

        if app_dec.lock().await.should_quit {
            break;
        }
    }
