// Root of `mod verif` inside the unit-test binary of the python binding crate
// (hook H7). The binding's `decode_1090t_vec` is the third call site of the
// stateful position decoder (after jet1090's loop and decode1090): it parses
// chunks of (frame, timestamp) in parallel, concatenates what decoded, and runs
// decode_positions over the result. This entry point is run as a process by the
// C06 check: it reads a history written by the simulator, calls the real
// function (no Python interpreter is involved: the function only builds bytes)
// and prints, per record returned, its timestamp, frame and position.
//
// input:  line 1  "ref <lat> <lon>" | "noref"
//         then    "chunk"                     starts a new chunk
//                 "m <timestamp> <hex frame>" a message of the current chunk
// output: "r <timestamp> <frame> <lat|-> <lon|->" per returned record, then "end <n>"

#[test]
fn verif_py_entry() {
    let Ok(path) = std::env::var("VERIF_PY_INPUT") else {
        return; // plain `cargo test` with the feature on: nothing to do
    };
    let text = std::fs::read_to_string(&path).expect("input file");
    let mut reference: Option<[f64; 2]> = None;
    let mut msgs_set: Vec<Vec<String>> = Vec::new();
    let mut ts_set: Vec<Vec<f64>> = Vec::new();
    for line in text.lines() {
        let mut it = line.split_whitespace();
        match it.next() {
            Some("ref") => {
                let la: f64 = it.next().unwrap().parse().unwrap();
                let lo: f64 = it.next().unwrap().parse().unwrap();
                reference = Some([la, lo]);
            }
            Some("chunk") => {
                msgs_set.push(Vec::new());
                ts_set.push(Vec::new());
            }
            Some("m") => {
                let ts: f64 = it.next().unwrap().parse().unwrap();
                let hex = it.next().unwrap().to_string();
                msgs_set.last_mut().unwrap().push(hex);
                ts_set.last_mut().unwrap().push(ts);
            }
            _ => {}
        }
    }
    let pkl = super::decode_1090t_vec(msgs_set, ts_set, reference).expect("decode_1090t_vec");
    let v: serde_pickle::Value = serde_pickle::value_from_slice(&pkl, Default::default()).expect("pickle");
    let serde_pickle::Value::List(items) = v else { panic!("not a list") };
    let get = |d: &std::collections::BTreeMap<serde_pickle::HashableValue, serde_pickle::Value>, k: &str| d.get(&serde_pickle::HashableValue::String(k.to_string())).cloned();
    let num = |v: Option<serde_pickle::Value>| match v {
        Some(serde_pickle::Value::F64(x)) => format!("{:?}", x),
        Some(serde_pickle::Value::I64(x)) => format!("{}", x),
        _ => "-".to_string(),
    };
    // (the test harness prints "test ... " without a newline before us)
    let mut out = String::from("\n");
    for it in &items {
        let serde_pickle::Value::Dict(d) = it else { continue };
        let frame = match get(d, "frame") {
            Some(serde_pickle::Value::String(s)) => s,
            _ => "?".to_string(),
        };
        out.push_str(&format!("r {} {} {} {}\n", num(get(d, "timestamp")), frame, num(get(d, "latitude")), num(get(d, "longitude"))));
    }
    out.push_str(&format!("end {}\n", items.len()));
    use std::io::Write;
    let so = std::io::stdout();
    let mut so = so.lock();
    so.write_all(out.as_bytes()).unwrap();
    so.flush().unwrap();
}
