// C12 — the state-vector table attributes every update to the right aircraft.
//
// System under test: the real `Jet1090` value inside its real
// Arc<tokio::Mutex<_>>, real snapshot::update_snapshot / store_history, real
// web::all (what /all serves) as reader, real decode_position before each
// position record. Stubs: the lines of main()'s loop that call those functions
// in order (app.rs), the record source, the lock-holder (a stand-in for the TUI
// draw), the aircraft database (empty).

use super::app;
use super::batch::{Meta, Outcome, Scenario, Tier, Violation};
use super::exec::{self, RunEnd, SchedSpec, Sim};
use super::rng::{Fnv, Rng};
use super::world;
use crate::Jet1090;
use rs1090::decode::cpr::Position;
use rs1090::prelude::*;
use serde::{Deserialize, Serialize};
use serde_json::Value;
use std::cell::RefCell;
use std::collections::{BTreeMap, BTreeSet};
use std::rc::Rc;
use std::sync::Arc;
use tokio::sync::Mutex;
use warp::Reply;

#[derive(Clone, Debug, Serialize, Deserialize)]
pub struct Rec {
    pub frame: String,
    /// timestamp of the record, ms after the epoch (may be non-monotone)
    pub ts_ms: u64,
    /// simulated time at which the source hands the record over
    pub at_ns: u64,
}

#[derive(Clone, Debug, Serialize, Deserialize)]
pub struct ReaderPlan {
    /// simulated instants of the /all requests
    pub at_ns: Vec<u64>,
    /// the request with this index is cancelled (client disconnect) this long
    /// after it was issued
    pub cancel: Option<(usize, u64)>,
}

/// a request to one of the other REST handlers, which only read the table:
/// whatever they do, the table and /all must not notice
#[derive(Clone, Debug, Serialize, Deserialize)]
pub struct OtherReq {
    pub at_ns: u64,
    /// 0 = `/` (list of addresses), 1 = /sensors, 2 = /track?icao24=, 3 = /track?icao24=&since=
    pub kind: u8,
    /// the aircraft asked for is the one of this record
    pub rec: usize,
    /// the client disconnects this long after the request was issued
    pub cancel_after: Option<u64>,
}

#[derive(Clone, Debug, Serialize, Deserialize)]
pub struct HolderPlan {
    /// (instant, duration) during which the mutex is held
    pub holds: Vec<(u64, u64)>,
}

#[derive(Clone, Debug, Serialize, Deserialize)]
pub struct C12Plan {
    pub records: Vec<Rec>,
    pub cap: usize,
    pub readers: Vec<ReaderPlan>,
    #[serde(default)]
    pub others: Vec<OtherReq>,
    pub holders: Vec<HolderPlan>,
    pub reference: Option<(f64, f64)>,
    pub yields: bool,
    pub sched: SchedSpec,
    /// the record stamps count from 0 instead of from the simulation's epoch (a
    /// capture replayed with relative times: the first records fall in second 0)
    #[serde(default)]
    pub relative_time: bool,
}

pub struct C12;

pub const CORPUS: &[&str] = &[
    "8da05629ea21485cbf3f8cadaeeb", // BDS 6,2 target state
    "a0001838201584f23468207cdfa5", // DF20 BDS 2,0 / 1,0
    "a800178d10010080f50000d5893c", // DF21
    "a000029c85e42f313000007047d3", // DF20 BDS 4,0
    "a0000638fa81c10000000081a92f", // DF20 BDS 4,0/5,0/6,0 ambiguous
    "a000139381951536e024d4ccf6b5", // DF20 BDS 5,0
    "a80004aaa74a072bfdefc1d5cb4f", // DF21 BDS 6,0
    "a8001ebcfffb23286004a73f6a5b", // DF21
    "a0001692185bd5cf400000dfc696", // DF20 BDS 4,4
    "8d485020994409940838175b284f", // velocity (ground speed)
    "8da05f219b06b6af189400cbc33f", // velocity (airspeed)
    "8c4841753a9a153237aef0f275be", // surface position
];

/// frames of one simulated aircraft: every kind the table reads
fn frames_for(rng: &mut Rng, ai: usize, icao: u32) -> Vec<Vec<u8>> {
    // (the per-aircraft values below were written for a handful of aircraft)
    let ai = ai % 9;
    let cs = format!("AC{}X{:03}", ai, rng.below(1000));
    let alt = 5000 + 4000 * ai as i32 + 25 * rng.irange(0, 100) as i32;
    let sq = [(ai as u8 + 1) & 7, rng.below(8) as u8, rng.below(8) as u8, ai as u8 & 7];
    let (lat, lon) = (rng.frange(-70.0, 70.0), rng.frange(-170.0, 170.0));
    let mut v = Vec::new();
    v.push(world::df17_identification(icao, rng.range(1, 4) as u8, rng.below(8) as u8, &cs));
    for k in 0..4 {
        let (f, _) = world::df17_airborne_position(icao, rng.range(9, 18) as u8, alt + 25 * k, lat + 0.001 * k as f64, lon, k % 2 == 1);
        v.push(f);
    }
    for k in 0..2 {
        let (f, _) = world::df17_surface_position(icao, rng.range(5, 8) as u8, 10.0 + ai as f64, 45.0 * ai as f64, lat, lon, k % 2 == 1);
        v.push(f);
    }
    v.push(world::df17_velocity_gs(icao, 100 + 37 * ai as i32, -(200 + 11 * ai as i32), 64 * (ai as i32 + 1)));
    v.push(world::df4(icao, rng.below(6) as u8, alt));
    v.push(world::df5(icao, rng.below(6) as u8, sq));
    v.push(world::df11(icao, 5));
    v.push(world::df0(icao, alt));
    for c in CORPUS {
        if let Some(f) = world::readdress(&world::unhex(c), icao) {
            v.push(f);
        }
    }
    // status / operational status / reserved type codes: random ME bits under
    // a fixed type code; the real decoder decides whether they are records
    for tc in [28u64, 29, 31, 31, 0, 23, 24, 27, 30] {
        let me = (tc << 51) | (rng.next_u64() & ((1 << 51) - 1));
        v.push(world::df17(icao, 5, me));
    }
    // any type code with arbitrary content: identification with characters
    // outside the alphabet, positions with illegal altitude codes, velocity
    // subtypes 2-4 and reserved ones, ...
    for _ in 0..6 {
        let tc = rng.range(1, 22);
        let me = (tc << 51) | (rng.next_u64() & ((1 << 51) - 1));
        v.push(world::df17(icao, rng.below(8) as u8, me));
    }
    // identification whose call sign holds an unassigned character code
    {
        let mut me = (rng.range(1, 4) << 51) | (rng.below(8) << 48);
        for k in 0..8 {
            let code = if k == rng.below(8) as usize || rng.chance(0.1) { *rng.pick(&[0u64, 27, 31, 33, 47, 58, 63]) } else { rng.range(1, 26) };
            me |= code << (42 - 6 * k);
        }
        v.push(world::df17(icao, 5, me));
    }
    // an identification of eight spaces, a second call sign (changed in flight)
    v.push(world::df17_identification(icao, 4, 0, "        "));
    v.push(world::df17_identification(icao, 4, 0, &format!("ALT{}Z{:02}", ai, rng.below(100))));
    // altitudes at the ends of the code: below sea level, above FL500
    for a in [-1000i32, -975, -25, 0, 50175, 126_700] {
        v.push(world::df4(icao, 0, a));
        v.push(world::df17_airborne_position(icao, 11, a, lat, lon, rng.chance(0.5)).0);
    }
    // TIS-B with assorted control fields
    for cf in [0u8, 1, 2, 3, 4, 5, 6, 7] {
        let (f, _) = world::df17_airborne_position(icao, 11, alt, lat, lon, rng.chance(0.5));
        let mut b = f[..11].to_vec();
        b[0] = (18 << 3) | cf;
        v.push(world::with_parity(&b));
    }
    // Comm-B with arbitrary payloads
    for _ in 0..3 {
        let mut b = vec![(20u8 << 3) | rng.below(6) as u8, rng.byte() & 0x1f, 0, 0];
        let ac = world::ac13_25ft(alt);
        b[2] = (ac >> 8) as u8 & 0x1f;
        b[3] = ac as u8;
        for _ in 0..7 {
            b.push(rng.byte());
        }
        v.push(world::with_ap(&b, icao));
    }
    v
}

impl Scenario for C12 {
    type Plan = C12Plan;
    fn id(&self) -> &'static str {
        "C12"
    }
    fn runs(&self, tier: Tier) -> u64 {
        match tier {
            Tier::Quick => 40_000,
            Tier::Thorough => 2_500_000,
        }
    }
    fn generate(&self, rng: &mut Rng, tier: Tier, _idx: u64) -> C12Plan {
        // 1 run in 100 is a crowd: more aircraft than any bounded structure a
        // change might introduce (a cache, a fixed-size table, an 8-bit index)
        let crowd = rng.chance(0.01);
        let n_ac = if crowd { rng.usize(30, 300) } else { rng.usize(1, 6) };
        let mut icaos: Vec<u32> = Vec::new();
        while icaos.len() < n_ac {
            let i = match rng.below(if crowd { 40 } else { 8 }) {
                // neighbours in address space (one bit apart)
                0 | 1 if !icaos.is_empty() => icaos[0] ^ (1 << rng.below(24)),
                // addresses at the edges of the 24-bit space and with leading zeros
                2 => *rng.pick(&[0x000001u32, 0xFFFFFF, 0xFFFFFE, 0x800000, 0x7FFFFF, 0x000100, 0x0A0000, 0x100000, 0x0FFFFF, 0x00000A, 0x000000]),
                _ => rng.range(1, 0xFF_FFFE) as u32,
            };
            if !icaos.contains(&i) {
                icaos.push(i);
            }
        }
        let pools: Vec<Vec<Vec<u8>>> = icaos.iter().enumerate().map(|(ai, &i)| frames_for(rng, ai, i)).collect();
        let max = match tier {
            Tier::Quick => 60,
            Tier::Thorough => {
                if rng.chance(0.05) {
                    300
                } else {
                    80
                }
            }
        };
        let n = if crowd { rng.usize(n_ac, 2 * n_ac + 50) } else { rng.usize(1, max) };
        let mut records = Vec::new();
        let mut t_ms: u64 = *rng.pick(&[50_000u64, 50_000, 50_000, 0, 300]);
        let mut at: u64 = 0;
        let burst = rng.chance(0.5);
        for k in 0..n {
            // (in a crowd every aircraft is heard at least once)
            let ai = if crowd && k < n_ac { k } else { rng.usize(0, n_ac - 1) };
            let mut f = rng.pick(&pools[ai]).clone();
            if rng.chance(0.04) {
                // formats without an address in the JSON
                f = if rng.chance(0.5) {
                    let mut b = vec![19u8 << 3];
                    b.extend((0..13).map(|_| rng.byte()));
                    b
                } else {
                    let mut b = vec![(24u8 + rng.below(8) as u8) << 3];
                    b.extend((0..13).map(|_| rng.byte()));
                    b
                };
            }
            // non-monotone timestamps
            t_ms = match rng.below(100) {
                0..=9 => t_ms.saturating_sub(rng.range(0, 5_000)),
                10..=19 => t_ms + rng.range(1_000, 100_000),
                // a receiver that stays up: the same airframe hours or days later
                20 => t_ms + rng.range(3_600_000, 3 * 86_400_000),
                21 => t_ms + rng.range(100_000, 3_600_000),
                _ => t_ms + rng.range(0, 900),
            };
            at += if burst { rng.range(0, 2_000_000) } else { rng.range(0, 300_000_000) };
            records.push(Rec {
                frame: world::hex(&f),
                ts_ms: t_ms,
                at_ns: at,
            });
        }
        let span = at + 1_000_000_000;
        let mut readers = Vec::new();
        for _ in 0..rng.usize(0, 3) {
            let k = rng.usize(1, 12);
            let mut at_ns: Vec<u64> = (0..k).map(|_| rng.below(span)).collect();
            at_ns.sort();
            let cancel = if rng.chance(0.25) {
                Some((rng.usize(0, k - 1), *rng.pick(&[0u64, 1_000, 1_000_000, 50_000_000])))
            } else {
                None
            };
            readers.push(ReaderPlan { at_ns, cancel });
        }
        let mut others = Vec::new();
        if rng.chance(0.6) && !records.is_empty() {
            for _ in 0..rng.usize(1, 10) {
                // most requests go off while that aircraft is being heard
                let rec = rng.usize(0, records.len() - 1);
                let at_ns = if rng.chance(0.7) { records[rec].at_ns.saturating_sub(rng.below(3_000_000)) + rng.below(3_000_000) } else { rng.below(span) };
                others.push(OtherReq {
                    at_ns,
                    kind: *rng.pick(&[0u8, 1, 2, 2, 3, 3]),
                    rec,
                    cancel_after: if rng.chance(0.2) { Some(*rng.pick(&[0u64, 1_000, 1_000_000, 50_000_000])) } else { None },
                });
            }
        }
        let mut holders = Vec::new();
        for _ in 0..rng.usize(0, 2) {
            let k = rng.usize(1, 8);
            let mut holds: Vec<(u64, u64)> = (0..k)
                .map(|_| (rng.below(span), *rng.pick(&[1_000u64, 1_000_000, 20_000_000, 250_000_000, 3_000_000_000])))
                .collect();
            holds.sort();
            holders.push(HolderPlan { holds });
        }
        C12Plan {
            records,
            cap: *rng.pick(&[1usize, 1, 2, 8, 101, 201]),
            readers,
            others,
            holders,
            reference: if rng.chance(0.5) { Some((rng.frange(-60., 60.), rng.frange(-170., 170.))) } else { None },
            yields: rng.chance(0.8),
            sched: SchedSpec::generate(rng, 8 * n as u32 + 32),
            relative_time: rng.chance(0.06),
        }
    }
    fn execute(&self, plan: &C12Plan) -> Outcome<C12Plan> {
        execute(plan)
    }
    fn shrink(&self, p: &C12Plan) -> Vec<C12Plan> {
        let mut out = Vec::new();
        if !p.holders.is_empty() {
            let mut q = p.clone();
            q.holders.clear();
            out.push(q);
        }
        if !p.others.is_empty() {
            let mut q = p.clone();
            q.others.clear();
            out.push(q);
            if p.others.len() > 1 {
                for i in 0..p.others.len() {
                    let mut q = p.clone();
                    q.others.remove(i);
                    out.push(q);
                }
            }
        }
        if !p.readers.is_empty() {
            let mut q = p.clone();
            q.readers.clear();
            out.push(q);
            if p.readers.len() > 1 {
                for i in 0..p.readers.len() {
                    let mut q = p.clone();
                    q.readers.remove(i);
                    out.push(q);
                }
            }
            for i in 0..p.readers.len() {
                if p.readers[i].cancel.is_some() {
                    let mut q = p.clone();
                    q.readers[i].cancel = None;
                    out.push(q);
                }
                if p.readers[i].at_ns.len() > 1 {
                    for k in 0..p.readers[i].at_ns.len() {
                        let mut q = p.clone();
                        q.readers[i].at_ns.remove(k);
                        q.readers[i].cancel = None;
                        out.push(q);
                    }
                }
            }
        }
        for i in 0..p.holders.len() {
            if p.holders[i].holds.len() > 1 {
                for k in 0..p.holders[i].holds.len() {
                    let mut q = p.clone();
                    q.holders[i].holds.remove(k);
                    out.push(q);
                }
            }
        }
        if p.sched.policy != 3 {
            let mut q = p.clone();
            q.sched = SchedSpec::fifo();
            out.push(q);
        }
        let n = p.records.len();
        let mut chunk = n / 2;
        while chunk >= 1 && out.len() * (n + 1) < 3_000_000 {
            let mut i = 0;
            while i < n && out.len() * (n + 1) < 3_000_000 {
                let mut q = p.clone();
                q.records.drain(i..(i + chunk).min(n));
                out.push(q);
                i += chunk;
            }
            if chunk == 1 {
                break;
            }
            chunk /= 2;
        }
        if p.reference.is_some() {
            let mut q = p.clone();
            q.reference = None;
            out.push(q);
        }
        if p.cap != 201 {
            let mut q = p.clone();
            q.cap = 201;
            out.push(q);
        }
        out
    }
    fn meta(&self) -> Meta {
        Meta {
            level: "exploration",
            rule: "One run = one seeded history of decoded records of 1-6 aircraft (every message kind the table reads, addresses partly one bit apart, non-monotone timestamps, a few address-less DF19/DF24) pushed through main()'s decoding loop (real decode_position, update_snapshot, store_history) while /all readers (real web::all), lock-holders and a request canceller run as other tasks under the seeded scheduler. Distinct = distinct hash of the ordered poll/timer/update/observation log. Non-trivial = more than one runnable task at some step or a lock-holder/reader/cancellation fired, AND at least one table entry was checked against the oracle.",
            components: vec![
                ("jet1090::snapshot::update_snapshot / store_history", "real"),
                ("jet1090::Jet1090 state behind Arc<tokio::sync::Mutex>", "real"),
                ("jet1090::web::all (the /all handler) + warp/hyper reply body", "real"),
                ("rs1090 decode_position, Message::try_from, serde serialisation", "real"),
                app::main_loop_component(),
                ("record source, lock-holder (TUI draw stand-in), HTTP clients, canceller", "stub"),
                ("aircraft database", "stub (empty map)"),
                ("tokio runtime", "stub (seeded executor)"),
            ],
            assumptions: vec![
                "for non-monotone histories 'first'/'latest' record is accepted either by processing order or by time stamp",
                "provenance is checked against the set of all values that appear in the JSON of that aircraft's own records",
                "no expiry task (only started with --history-expire; the property speaks of every address seen)",
            ],
            fault_kinds: vec!["lock_hold", "long_lock_hold", "reader_cancelled", "backpressure", "nonmonotone_timestamps"],
            probes: vec![
                "records_processed",
                "observations",
                "observation_between_update_and_history",
                "entries_checked",
                "addressless_records",
                "undecodable_frames",
                "aircraft_one_bit_apart",
                "position_attached",
                "multi_ready_steps",
                "kinds_seen",
            ],
        }
    }
    fn sample(&self, p: &C12Plan) -> Value {
        let mut q = p.clone();
        let n = q.records.len();
        if n > 10 {
            q.records.truncate(10);
        }
        let mut v = serde_json::to_value(&q).unwrap();
        v["records_total"] = serde_json::json!(n);
        v
    }
}

fn leaves(v: &Value, out: &mut Vec<Value>) {
    match v {
        Value::Object(m) => {
            for (_, x) in m {
                leaves(x, out)
            }
        }
        Value::Array(a) => {
            for x in a {
                leaves(x, out)
            }
        }
        Value::Null => {}
        x => out.push(x.clone()),
    }
}

fn same_value(a: &Value, b: &Value) -> bool {
    match (a, b) {
        (Value::Number(x), Value::Number(y)) => x.as_f64() == y.as_f64(),
        _ => a == b,
    }
}

pub fn first_diff_entry(a: &Value, b: &Value) -> String {
    let (Some(x), Some(y)) = (a.as_array(), b.as_array()) else {
        return a.to_string();
    };
    for (i, e) in x.iter().enumerate() {
        if y.get(i) != Some(e) {
            let mut s = e.to_string();
            s.truncate(700);
            return s;
        }
    }
    "(prefix)".to_string()
}

/// An /all body with its entries ordered by address: the property fixes the
/// entries, not the order in which they are listed.
pub fn canonical_all(body: &str) -> Option<Vec<Value>> {
    let v: Value = serde_json::from_str(body).ok()?;
    let mut a: Vec<Value> = v
        .as_array()?
        .iter()
        .map(|e| {
            // the fields the property speaks of; whatever else an entry carries
            // (or will carry) is not compared
            let mut m = serde_json::Map::new();
            for k in ["icao24", "count", "firstseen", "lastseen"].iter().chain(PROV_FIELDS.iter()) {
                m.insert(k.to_string(), e.get(*k).cloned().unwrap_or(Value::Null));
            }
            Value::Object(m)
        })
        .collect();
    a.sort_by(|x, y| x["icao24"].as_str().unwrap_or("").cmp(y["icao24"].as_str().unwrap_or("")));
    Some(a)
}

/// exactly what web::all puts on the wire (warp::reply::json = serde_json::to_vec)
pub fn table_text(app: &Jet1090) -> String {
    serde_json::to_string(&app.state_vectors.values().map(|sv| &sv.cur).collect::<Vec<_>>()).unwrap()
}

pub fn table_json(app: &Jet1090) -> Value {
    serde_json::to_value(app.state_vectors.values().map(|sv| &sv.cur).collect::<Vec<_>>()).unwrap()
}

struct Shared {
    /// post-decode records in the order in which update_snapshot completed
    done: Vec<TimedMessage>,
    /// (number of completed updates at observation time, body)
    /// (completed updates at observation time, reply body as sent)
    observations: Vec<(usize, String)>,
    /// the sequential table after k+1 updates, serialised the way /all does
    shadow_tables: Vec<String>,
    hist_done: usize,
    obs_while_waiting: u64,
}

const PROV_FIELDS: &[&str] = &[
    "callsign",
    "squawk",
    "latitude",
    "longitude",
    "altitude",
    "selected_altitude",
    "groundspeed",
    "vertical_rate",
    "track",
    "ias",
    "tas",
    "mach",
    "roll",
    "heading",
    "nacp",
];

/// Clauses 1-4 of C12 on a final table: `done` = the post-decode records in the
/// order in which update_snapshot completed. Used by the focused scenario and
/// by the pipeline. Returns the number of distinct aircraft expected.
pub fn judge_final_table(
    done: &[TimedMessage],
    app: &Arc<Mutex<Jet1090>>,
    final_table: &Value,
    count: &mut dyn FnMut(&'static str, u64),
    viol: &mut Option<Violation>,
) -> usize {
    macro_rules! set {
        ($v:expr) => {{
            let v = $v;
            if viol.is_none() {
                *viol = Some(v);
            }
        }};
    }
    // per-aircraft expectations from the records' own JSON
    struct Exp {
        count: u64,
        first: u64,
        last: u64,
        min: u64,
        max: u64,
        values: Vec<Value>,
        recs: Vec<usize>,
    }
    let mut exp: BTreeMap<String, Exp> = BTreeMap::new();
    let mut kinds: BTreeSet<String> = BTreeSet::new();
    let mut addressless = 0u64;
    for (i, m) in done.iter().enumerate() {
        let j = serde_json::to_value(m).unwrap();
        let df = j.get("df").and_then(|d| d.as_str()).unwrap_or("?").to_string();
        kinds.insert(format!("{}:{}", df, j.get("bds").and_then(|b| b.as_str()).unwrap_or("-")));
        let addressed = ["0", "4", "5", "11", "16", "17", "18", "20", "21"].contains(&df.as_str());
        match (addressed, j.get("icao24").and_then(|v| v.as_str())) {
            (true, Some(icao)) => {
                let e = exp.entry(icao.to_string()).or_insert(Exp {
                    count: 0,
                    first: m.timestamp as u64,
                    last: 0,
                    min: u64::MAX,
                    max: 0,
                    values: Vec::new(),
                    recs: Vec::new(),
                });
                e.count += 1;
                e.last = m.timestamp as u64;
                e.min = e.min.min(m.timestamp as u64);
                e.max = e.max.max(m.timestamp as u64);
                leaves(&j, &mut e.values);
                e.recs.push(i);
                if j.get("latitude").is_some() {
                    count("position_attached", 1);
                }
            }
            _ => addressless += 1,
        }
    }
    count("addressless_records", addressless);
    count("kinds_seen", kinds.len() as u64);
    {
        let ks: Vec<u32> = exp.keys().filter_map(|k| u32::from_str_radix(k, 16).ok()).collect();
        let mut close = false;
        for a in 0..ks.len() {
            for b in a + 1..ks.len() {
                if (ks[a] ^ ks[b]).count_ones() == 1 {
                    close = true;
                }
            }
        }
        count("aircraft_one_bit_apart", close as u64);
    }
    if let Value::Array(entries) = final_table {
        // clause 1: exactly one entry per address seen, keyed by the JSON address
        let keys: Vec<String> = entries.iter().map(|e| e["icao24"].as_str().unwrap_or("").to_string()).collect();
        if let Ok(g) = app.try_lock() {
            for (k, sv) in g.state_vectors.iter() {
                if *k != sv.cur.icao24 {
                    set!(Violation::new("c12.1-keys", "key-differs-from-entry", format!("entry stored under key {} says icao24 {}", k, sv.cur.icao24)));
                }
            }
        }
        let want: Vec<String> = exp.keys().cloned().collect();
        let mut have = keys.clone();
        have.sort();
        if have != want {
            let missing: Vec<&String> = want.iter().filter(|k| !have.contains(k)).collect();
            let extra: Vec<&String> = have.iter().filter(|k| !want.contains(k)).collect();
            set!(Violation::new(
                "c12.1-keys",
                if !extra.is_empty() { "unexpected-entry" } else { "missing-entry" },
                format!("table keys {:?}; addresses shown by the records' JSON {:?}; missing {:?}, unexpected {:?}", have, want, missing, extra),
            ));
        }
        for e in entries {
            let k = e["icao24"].as_str().unwrap_or("").to_string();
            let Some(x) = exp.get(&k) else { continue };
            count("entries_checked", 1);
            // clause 2
            if e["count"].as_u64() != Some(x.count) {
                set!(Violation::new("c12.2-count", "count", format!("aircraft {}: count {} but {} of its records were processed", k, e["count"], x.count)));
            }
            // 'first' and 'latest' record: by processing order or by time stamp
            // (they differ only for non-monotone histories; either reading is accepted)
            if e["firstseen"].as_u64() != Some(x.first) && e["firstseen"].as_u64() != Some(x.min) {
                set!(Violation::new("c12.2-count", "firstseen", format!("aircraft {}: firstseen {} but its first record is stamped {} (earliest stamp {})", k, e["firstseen"], x.first, x.min)));
            }
            if e["lastseen"].as_u64() != Some(x.last) && e["lastseen"].as_u64() != Some(x.max) {
                set!(Violation::new("c12.2-count", "lastseen", format!("aircraft {}: lastseen {} but its latest record is stamped {} (latest stamp {})", k, e["lastseen"], x.last, x.max)));
            }
            // clause 3: provenance
            for f in PROV_FIELDS {
                let v = &e[*f];
                if v.is_null() {
                    continue;
                }
                if !x.values.iter().any(|w| same_value(w, v)) {
                    // whose value is it?
                    let owner = exp.iter().find(|(kk, xx)| **kk != k && xx.values.iter().any(|w| same_value(w, v))).map(|(kk, _)| kk.clone());
                    set!(Violation::new(
                        "c12.3-provenance",
                        format!("{}", f),
                        format!("aircraft {}: {} = {} does not appear in any of its own {} records{}", k, f, v, x.count, owner.map(|o| format!(" (it appears in records of {})", o)).unwrap_or_default()),
                    ));
                }
            }
        }
        // clause 4: the entry is identical when the aircraft's records are processed alone
        if viol.is_none() && exp.len() > 1 {
            for (k, x) in exp.iter() {
                let alone = Arc::new(Mutex::new(app::new_app(120)));
                let db = BTreeMap::new();
                for &i in &x.recs {
                    let mut m = app::clone_tm(&done[i]);
                    app::now_or_never(crate::snapshot::update_snapshot(&alone, &mut m, &db));
                }
                let t = table_json(&alone.try_lock().unwrap());
                let mine = entries.iter().find(|e| e["icao24"].as_str() == Some(k));
                if t.get(0) != mine {
                    let mut field = "entry".to_string();
                    if let (Some(Value::Object(a)), Some(Value::Object(b))) = (t.get(0), mine) {
                        for (kk, vv) in a {
                            if b.get(kk) != Some(vv) {
                                field = kk.clone();
                                break;
                            }
                        }
                    }
                    set!(Violation::new(
                        "c12.4-interference",
                        field,
                        format!("aircraft {}: entry {} when other aircraft are interleaved, {} when its records are processed alone", k, mine.map(|m| m.to_string()).unwrap_or_default(), t.get(0).map(|m| m.to_string()).unwrap_or_default()),
                    ));
                    break;
                }
            }
        }
    }
    exp.len()
}

pub fn execute(plan: &C12Plan) -> Outcome<C12Plan> {
    let mut out = Outcome::new();
    out.evaluations = 1;
    out.sched_policy = plan.sched.policy_name();
    let mut sim = Sim::new(&plan.sched);

    // decode the frames (real decoder); undecodable ones never reach the loop
    // (dedup only forwards decodable frames)
    // (relative time: from 0; a third of those runs instead from 2100-01-01, later
    // than any host clock this will run on)
    let epoch0 = if plan.relative_time { if plan.records.len() % 3 == 0 { 4_102_444_800.0 } else { 0.0 } } else { exec::EPOCH_S as f64 };
    let mut msgs: Vec<(u64, TimedMessage)> = Vec::new();
    let mut undecodable = 0u64;
    // a record that cannot be rendered as JSON shows no address at all: the
    // property speaks of the address shown in the record's JSON, so such
    // records are left out of the workload (and counted)
    let mut unserialisable = 0u64;
    for (i, r) in plan.records.iter().enumerate() {
        let f = world::unhex(&r.frame);
        match Message::try_from(f.as_slice()) {
            Ok(m) if serde_json::to_string(&m).is_err() => unserialisable += 1,
            Ok(m) => msgs.push((
                r.at_ns,
                TimedMessage {
                    timestamp: epoch0 + r.ts_ms as f64 * 1e-3,
                    frame: f,
                    message: Some(m),
                    metadata: vec![SensorMetadata {
                        system_timestamp: epoch0 + r.ts_ms as f64 * 1e-3,
                        gnss_timestamp: None,
                        nanoseconds: None,
                        rssi: None,
                        serial: 7,
                        name: Some(format!("rec{}", i)),
                    }],
                    decode_time: None,
                },
            )),
            Err(_) => undecodable += 1,
        }
    }
    out.count("undecodable_frames", undecodable);
    out.count("unserialisable_records_skipped", unserialisable);
    let n_msgs = msgs.len();

    let app = Arc::new(Mutex::new(app::new_app(120)));
    let shadow = Arc::new(Mutex::new(app::new_app(120)));
    let shared = Rc::new(RefCell::new(Shared {
        done: Vec::new(),
        observations: Vec::new(),
        shadow_tables: Vec::new(),
        hist_done: 0,
        obs_while_waiting: 0,
    }));
    let reference = plan.reference.map(|(la, lo)| Position { latitude: la, longitude: lo });
    let (tx, rx) = tokio::sync::mpsc::channel::<TimedMessage>(plan.cap.max(1));
    let bp = Rc::new(RefCell::new(0u64));

    // source
    {
        let bp = bp.clone();
        sim.spawn("source(stub)", async move {
            for (at, m) in msgs {
                exec::sleep_until_ns(at).await;
                if tx.capacity() == 0 {
                    *bp.borrow_mut() += 1;
                }
                if tx.send(m).await.is_err() {
                    break;
                }
            }
        });
    }
    // decoder: re-stated main loop around the real functions
    let decoder = {
        let sh = shared.clone();
        let sh2 = shared.clone();
        let shadow = shadow.clone();
        let hooks = app::LoopHooks {
            after_update: Box::new(move |n, msg| {
                exec::log_u64(0x0D00_0000 | n as u64);
                // the sequential reference: the same real code applied to a
                // private table, one record at a time, no contention
                let mut m2 = app::clone_tm(msg);
                let db = BTreeMap::new();
                app::now_or_never(crate::snapshot::update_snapshot(&shadow, &mut m2, &db)).expect("shadow update never completed");
                let t = table_text(&shadow.try_lock().expect("shadow is private"));
                let mut s = sh.borrow_mut();
                s.shadow_tables.push(t);
                s.done.push(app::clone_tm(msg));
            }),
            after_history: Box::new(move |_n| {
                sh2.borrow_mut().hist_done += 1;
            }),
            yields: plan.yields,
            store_history: true,
        };
        let app = app.clone();
        sim.spawn("main-loop+update_snapshot/store_history(real)", app::main_loop(rx, app, BTreeMap::from([(7u64, reference)]), hooks))
    };
    // readers
    let mut cancels: Vec<(usize, u64, usize)> = Vec::new(); // (task, at, reader)
    for (ri, rp) in plan.readers.iter().enumerate() {
        // one task per request, so that a single request can be cancelled
        for (k, &at) in rp.at_ns.iter().enumerate() {
            let app = app.clone();
            let sh = shared.clone();
            let t = sim.spawn("GET /all (web::all real)", async move {
                exec::sleep_until_ns(at).await;
                let reply = crate::web::all(&app).await.unwrap();
                // same poll as the critical section: how many updates were complete?
                let n_done = sh.borrow().done.len();
                {
                    // taken between update_snapshot and store_history of one record?
                    let mut s = sh.borrow_mut();
                    if s.done.len() > s.hist_done {
                        s.obs_while_waiting += 1;
                    }
                }
                let resp = reply.into_response();
                let bytes = warp::hyper::body::to_bytes(resp.into_body()).await.unwrap();
                let v = String::from_utf8_lossy(&bytes).to_string();
                exec::log_u64(0x0B00_0000 | n_done as u64);
                sh.borrow_mut().observations.push((n_done, v));
            });
            if let Some((ck, after)) = rp.cancel {
                if ck == k {
                    cancels.push((t, at + after, ri));
                }
            }
        }
    }
    // requests to the other handlers (/, /sensors, /track): they only read
    let mut other_reqs = 0u64;
    for (oi, o) in plan.others.iter().enumerate() {
        // the address the client asks for: the one of a record of the history
        let icao: Option<String> = plan.records.get(o.rec).and_then(|r| {
            let bytes = world::unhex(&r.frame);
            Message::try_from(bytes.as_slice()).ok().and_then(|m| serde_json::to_value(&m).ok()).and_then(|v| v["icao24"].as_str().map(|s| s.to_string()))
        });
        let since = plan.records.get(o.rec).map(|r| epoch0 + r.ts_ms as f64 * 1e-3 - 5.0);
        let (kind, at) = (o.kind, o.at_ns);
        let app = app.clone();
        other_reqs += 1;
        let t = sim.spawn("GET / | /sensors | /track (real handlers)", async move {
            exec::sleep_until_ns(at).await;
            let reply = match (kind, icao) {
                (0, _) | (_, None) => crate::web::icao24(&app).await.unwrap().into_response(),
                (1, _) => crate::web::sensors(&app).await.unwrap().into_response(),
                (k, Some(icao)) => {
                    let q: crate::web::TrackQuery = serde_json::from_value(serde_json::json!({"icao24": icao, "since": if k == 2 { Value::Null } else { serde_json::json!(since) }})).expect("track query");
                    crate::web::track(&app, q).await.unwrap().into_response()
                }
            };
            let bytes = warp::hyper::body::to_bytes(reply.into_body()).await.unwrap();
            exec::log_u64(0x0B70_0000 | bytes.len() as u64 & 0xFFFF);
        });
        if let Some(after) = o.cancel_after {
            cancels.push((t, at + after, 1000 + oi));
        }
    }
    // lock-holders (stand-in for the TUI task, which holds the mutex while it draws)
    let holding = Rc::new(RefCell::new(0u32));
    let mut holds_fired = 0u64;
    let mut long_holds = 0u64;
    for hp in plan.holders.iter() {
        let app = app.clone();
        let holds = hp.holds.clone();
        holds_fired += holds.len() as u64;
        long_holds += holds.iter().filter(|h| h.1 >= 250_000_000).count() as u64;
        let holding = holding.clone();
        sim.spawn("lock-holder(stub)", async move {
            for (at, dur) in holds {
                exec::sleep_until_ns(at).await;
                let g = app.lock().await;
                *holding.borrow_mut() += 1;
                exec::sleep_ns(dur).await;
                *holding.borrow_mut() -= 1;
                drop(g);
            }
        });
    }
    // canceller
    let mut cancelled = 0u64;
    cancels.sort_by_key(|c| c.1);

    let cap = 2_000 + 200 * (n_msgs as u64 + plan.readers.iter().map(|r| r.at_ns.len() as u64).sum::<u64>());
    let mut multi = 0u64;
    let mut last_choice = 0u64;
    let mut ci = 0usize;
    let end = sim.run(cap, |s, _id, _done| {
        if s.choice_points > last_choice {
            multi += s.choice_points - last_choice;
            last_choice = s.choice_points;
        }
        // a client disconnects: its request future is dropped wherever it is
        while ci < cancels.len() && exec::now_ns() >= cancels[ci].1 {
            if !s.is_done(cancels[ci].0) {
                s.cancel(cancels[ci].0);
                cancelled += 1;
            }
            ci += 1;
        }
        true
    });
    out.steps = sim.steps;
    out.sim_ns = exec::now_ns();

    // ---- oracle ---------------------------------------------------------
    let viol: RefCell<Option<Violation>> = RefCell::new(None);
    let set = |v: Violation| {
        let mut g = viol.borrow_mut();
        if g.is_none() {
            *g = Some(v);
        }
    };
    for p in &sim.panics {
        if p.file.contains("/verif/") || p.env_limit() {
            out.harness_error = Some(format!("driver panic in task {} at {}:{}: {}", p.task, p.file, p.line, p.msg));
        } else {
            set(Violation::new("c12.6-panic", p.short_loc(), format!("task {} panicked at {}:{}: {}", p.task, p.file, p.line, p.msg)));
        }
    }
    if end == RunEnd::StepCap {
        set(Violation::new("c12.6-liveness", "step-cap", format!("tasks still live after {} steps: {:?}", cap, sim.live_tasks())));
    } else if !sim.is_done(decoder) && sim.panics.is_empty() {
        set(Violation::new("c12.6-liveness", "deadlock", format!("system is idle but these tasks never finished: {:?}", sim.live_tasks())));
    }
    let sh = shared.borrow();
    if sim.panics.is_empty() && end == RunEnd::Quiescent && sh.done.len() != n_msgs {
        set(Violation::new("c12.6-liveness", "records-not-processed", format!("{} of {} records went through update_snapshot", sh.done.len(), n_msgs)));
    }
    out.count("records_processed", sh.done.len() as u64);
    out.count("observations", sh.observations.len() as u64);

    // final table
    let final_table: Value = match app.try_lock() {
        Ok(g) => table_json(&g),
        Err(_) => {
            set(Violation::new("c12.6-liveness", "mutex-still-held", "the application mutex is still held at the end of the run".to_string()));
            Value::Null
        }
    };
    let n_exp;
    {
        let mut v: Option<Violation> = None;
        let mut counts: Vec<(&'static str, u64)> = Vec::new();
        n_exp = judge_final_table(&sh.done, &app, &final_table, &mut |k, n| counts.push((k, n)), &mut v);
        for (k, n) in counts {
            out.count(k, n);
        }
        if let Some(v) = v {
            set(v);
        }
    }
    if let Value::Array(_entries) = &final_table {
        // no interleaving changes the final table
        if let (Some(last), Ok(g)) = (sh.shadow_tables.last(), app.try_lock()) {
            if *last != table_text(&g) && sh.done.len() == n_msgs {
                set(Violation::new("c12.5-atomic", "final-table", "the final table differs from the one obtained by applying the same records sequentially".to_string()));
            }
        }
    }
    // clause 5: every /all observation equals the sequential table after
    // exactly the updates completed before it
    for (n_done, body) in sh.observations.iter() {
        let want = if *n_done == 0 { "[]".to_string() } else { sh.shadow_tables[*n_done - 1].clone() };
        if *body != want && canonical_all(body) != canonical_all(&want) {
            let next = sh.shadow_tables.get(*n_done);
            // the record being processed at that instant may already be visible,
            // completely: update_snapshot may release the table before it returns
            if next.map_or(false, |n| canonical_all(n) == canonical_all(body)) {
                out.count("observation_of_update_about_to_return", 1);
                continue;
            }
            let loc = "half-applied-or-foreign-state";
            let body: Value = serde_json::from_str(body).unwrap_or(Value::Null);
            let want: Value = serde_json::from_str(&want).unwrap_or(Value::Null);
            let (body, want) = (&body, &want);
            set(Violation::new(
                "c12.5-atomic",
                loc,
                format!("an /all reply taken after {} completed updates shows {} entries and differs from the sequential table after {} updates: reply {} vs sequential {}", n_done, body.as_array().map(|a| a.len()).unwrap_or(0), n_done, first_diff_entry(body, want), first_diff_entry(want, body)),
            ));
            break;
        }
    }

    // ---- counters, signature ------------------------------------------------
    out.count("lock_hold", holds_fired);
    out.count("long_lock_hold", long_holds);
    out.count("reader_cancelled", cancelled);
    out.count("other_rest_requests", other_reqs);
    out.count("backpressure", *bp.borrow());
    out.count("multi_ready_steps", multi);
    out.count("observation_between_update_and_history", sh.obs_while_waiting);
    if plan.records.windows(2).any(|w| w[1].ts_ms < w[0].ts_ms) {
        out.count("nonmonotone_timestamps", 1);
    }
    let mut sig = Fnv::new();
    sig.u64(exec::log_hash());
    out.sigs.push(sig.0);
    if (multi > 0 || holds_fired > 0 || cancelled > 0) && n_exp > 0 {
        out.nontrivial_sigs.push(sig.0);
    }
    out.log_hash = {
        let mut f = Fnv::new();
        f.u64(exec::log_hash());
        f.bytes(final_table.to_string().as_bytes());
        f.u64(sh.observations.len() as u64);
        f.u64(viol.borrow().is_some() as u64);
        f.0
    };
    {
        let mut f = Fnv::new();
        f.bytes(final_table.to_string().as_bytes());
        out.oracle_states.push(f.0);
    }
    drop(sh);
    out.violation = viol.into_inner();
    out
}
