// C10 — deduplication conserves receptions and emits each frame once per window.
//
// System under test: the real `dedup::deduplicate_messages` as one task, real
// tokio mpsc channels on both sides. Stubs: the receivers (producer tasks, each
// holding a clone of the sender as main() creates them) and the consumer.

use super::batch::{Meta, Outcome, Scenario, Tier, Violation};
use super::exec::{self, RunEnd, SchedSpec, Sim};
use super::rng::{Fnv, Rng};
use super::world;
use rs1090::prelude::*;
use serde::{Deserialize, Serialize};
use std::cell::RefCell;
use std::collections::{BTreeMap, HashMap};
use std::rc::Rc;

#[derive(Clone, Debug, Serialize, Deserialize)]
pub struct Reception {
    pub id: u32,
    /// index into `frames`
    pub frame: u16,
    /// receiver (producer task) that heard it
    pub rx: u8,
    /// timestamp stamped by the receiver: microseconds after the epoch
    /// (fraction of a millisecond kept within [100, 900] µs, see DESIGN.md 3.2)
    pub ts_us: u64,
    /// simulated time at which the receiver tries to send it
    pub at_ns: u64,
}

#[derive(Clone, Debug, Serialize, Deserialize)]
pub struct Stall {
    /// the consumer stalls after having received this many records
    pub after: u32,
    pub dur_ns: u64,
}

#[derive(Clone, Debug, Serialize, Deserialize)]
pub struct C10Plan {
    pub window_ms: u32,
    pub cap_in: usize,
    pub cap_out: usize,
    /// frames as hex (decodable or not: decided by the real decoder at run time)
    pub frames: Vec<String>,
    pub n_rx: u8,
    /// 0 = one producer task sends everything in timestamp order;
    /// 1 = one producer task per receiver
    pub mode: u8,
    pub receptions: Vec<Reception>,
    pub stalls: Vec<Stall>,
    /// the consumer drops its receiver after this many records (consumer crash)
    pub consumer_crash_after: Option<u32>,
    /// receiver j drops its sender after this many sends (receiver crash)
    pub rx_crash_after: Vec<Option<u32>>,
    /// send a final distinct frame stamped after every window has closed
    pub flush: bool,
    pub sched: SchedSpec,
    /// decode1090 process scenario only: damaged lines in the recording,
    /// (inserted after this many receptions, kind): 0 bytes that are not UTF-8,
    /// 1 text that is not JSON, 2 a JSON line cut short, 3 an empty line,
    /// 4 JSON of another shape
    #[serde(default)]
    pub junk: Vec<(u32, u8)>,
    /// decode1090 process scenario only: the recording is in the older format
    /// (an `rssi` field per line instead of a `metadata` list)
    #[serde(default)]
    pub legacy: bool,
    /// decode1090 process scenario only: the lines of this receiver were written
    /// by another tool, with the frame in upper-case hexadecimal
    #[serde(default)]
    pub upper_rx: Option<u8>,
    /// every sender goes away right after the last reception (and the flush
    /// arrival): the sources have ended while the consumer may still be stalled
    #[serde(default)]
    pub close_input_early: bool,
}

pub struct C10;

const REAL_FRAMES: &[&str] = &[
    "8d406b902015a678d4d220aa4bda",
    "8d40058b58c901375147efd09357",
    "8d40058b58c904a87f402d3b8c59",
    "8d485020994409940838175b284f",
    "8da05629ea21485cbf3f8cadaeeb",
    "a0001910cc300030aa0000eae004",
    "a800178d10010080f50000d5893c",
    "8c4841753a9a153237aef0f275be",
];

fn gen_frames(rng: &mut Rng, k: usize) -> Vec<String> {
    let mut v: Vec<String> = Vec::new();
    while v.len() < k {
        let icao = rng.below(1 << 24) as u32;
        let f = match rng.below(13) {
            0..=3 => world::unhex(*rng.pick(REAL_FRAMES)),
            4 => world::df4(icao, 0, rng.irange(0, 40000) as i32),
            5 => world::df11(icao, 5),
            6 => world::df5(icao, 0, [1, 2, 3, 4]),
            7 => {
                world::df17_airborne_position(icao, 11, 30000, rng.frange(-80., 80.), rng.frange(-179., 179.), rng.chance(0.5)).0
            }
            8 => {
                // undecodable: DF17 with a broken parity
                let mut f = world::unhex(*rng.pick(&REAL_FRAMES[..5]));
                f[13] ^= 0x01 << rng.below(8);
                f
            }
            9 => {
                // undecodable: truncated / junk
                let n = rng.usize(0, 6);
                (0..n).map(|_| rng.byte()).collect()
            }
            10 => {
                // frames that differ in one bit only (distinct map keys)
                let mut f = world::df4(icao, 0, 12000);
                f[2] ^= 1;
                f
            }
            11 => {
                // a short reply padded to 14 bytes by a relay, or a frame with a
                // stray trailing byte (the decoder reads what the format announces)
                if rng.chance(0.5) {
                    let mut f = world::df4(icao, 0, 21000);
                    f.resize(14, 0);
                    f
                } else {
                    let mut f = world::df17_identification(icao, 4, 3, "PAD1090");
                    f.push(rng.byte());
                    f
                }
            }
            _ => world::df17_identification(icao, 4, 3, "SIM1090"),
        };
        let h = world::hex(&f);
        if !v.contains(&h) {
            v.push(h);
        }
    }
    v
}

fn ts(ms: u64, rng: &mut Rng) -> u64 {
    ms * 1000 + rng.range(100, 900)
}

impl Scenario for C10 {
    type Plan = C10Plan;
    fn id(&self) -> &'static str {
        "C10"
    }
    fn runs(&self, tier: Tier) -> u64 {
        match tier {
            Tier::Quick => 60_000,
            Tier::Thorough => 6_000_000,
        }
    }
    fn generate(&self, rng: &mut Rng, tier: Tier, _idx: u64) -> C10Plan {
        let mut window_ms = *rng.pick(&[0u32, 1, 5, 50, 450, 450, 450, 1000, 5000]);
        let w = window_ms as u64;
        let k = rng.usize(1, 8);
        let frames = gen_frames(rng, k);
        let n_rx = rng.range(1, 6) as u8;
        let mode = if rng.chance(0.45) { 0 } else { 1 };
        let max_tx = match tier {
            Tier::Quick => 40,
            Tier::Thorough => {
                if rng.chance(0.02) {
                    1200
                } else {
                    120
                }
            }
        };
        // 1 run in 100: one frame heard hundreds or thousands of times within a window
        let big_group = rng.chance(0.01);
        let n_tx = if big_group { rng.usize(300, 2500) } else { rng.usize(1, max_tx) };
        // receiver clocks (mode 1 only): skew in ms, optional jump
        let clock_faults = mode == 1 && rng.chance(0.6);
        let skew: Vec<i64> = (0..n_rx)
            .map(|_| {
                if clock_faults {
                    match rng.below(4) {
                        0 => 0,
                        1 => rng.irange(-3, 3),
                        2 => rng.irange(-(w as i64) - 5, w as i64 + 5),
                        _ => rng.irange(-20_000, 20_000),
                    }
                } else {
                    0
                }
            })
            .collect();
        let jump_at: Vec<Option<(usize, i64)>> = (0..n_rx)
            .map(|_| {
                if clock_faults && rng.chance(0.3) {
                    Some((rng.usize(0, n_tx), rng.irange(-60_000, 60_000)))
                } else {
                    None
                }
            })
            .collect();
        let base_ms: u64 = 100_000;
        let mut t_ms = base_ms;
        let mut receptions = Vec::new();
        let mut id = 0u32;
        let mut last_frame = 0usize;
        for i in 0..n_tx {
            // gap to the previous transmission
            let gap = match if big_group { rng.below(2) } else { rng.below(9) } {
                0 => 0,
                1 => rng.range(0, 3),
                2 => rng.range(0, w.max(1)),
                3 => (w + rng.range(0, 4)).saturating_sub(2),
                4 => w,
                5 => w + 1,
                6 => w + rng.range(1, w + 10),
                7 => rng.range(0, 50),
                _ => rng.range(2 * w + 1, 20 * w + 1000),
            };
            t_ms += gap;
            let f = if rng.chance(if big_group { 0.98 } else { 0.55 }) {
                last_frame
            } else {
                rng.usize(0, frames.len() - 1)
            };
            last_frame = f;
            // heard by a random non-empty subset of receivers
            let mut heard = false;
            for j in 0..n_rx {
                if rng.chance(0.6) || (!heard && j == n_rx - 1) {
                    heard = true;
                    let delay = match rng.below(5) {
                        0 => 0,
                        1 | 2 => rng.range(0, 5),
                        3 => rng.range(0, w + 3),
                        _ => rng.range(0, 40),
                    };
                    let mut rx_ms = t_ms as i64 + delay as i64 + skew[j as usize];
                    if let Some((after, by)) = jump_at[j as usize] {
                        if i >= after {
                            rx_ms += by;
                        }
                    }
                    let rx_ms = rx_ms.max(1) as u64;
                    let at_ms = (t_ms - base_ms) + delay;
                    receptions.push(Reception {
                        id,
                        frame: f as u16,
                        rx: j,
                        ts_us: ts(rx_ms, rng),
                        at_ns: at_ms * 1_000_000 + rng.range(0, 999_999),
                    });
                    id += 1;
                    // duplicate delivery by the same receiver
                    if rng.chance(0.05) {
                        receptions.push(Reception {
                            id,
                            frame: f as u16,
                            rx: j,
                            ts_us: ts(rx_ms + rng.range(0, 2), rng),
                            at_ns: at_ms * 1_000_000 + rng.range(1_000_000, 1_999_999),
                        });
                        id += 1;
                    }
                }
            }
        }
        if mode == 0 {
            // one producer, timestamp order: a monotone history by construction
            receptions.sort_by_key(|r| (r.ts_us, r.id));
            let mut at = 0u64;
            for r in receptions.iter_mut() {
                at = at.max(r.at_ns);
                r.at_ns = at;
            }
        } else {
            receptions.sort_by_key(|r| (r.at_ns, r.id));
        }
        let mut frames = frames;
        let mut mode = mode;
        if rng.chance(0.003) {
            // a busy feed: thousands of distinct frames open at the same time (more
            // than any bound a change might put on the number of open groups),
            // each heard by two receivers 200 ms apart
            let k = rng.usize(2100, 5000);
            window_ms = *rng.pick(&[450u32, 1000, 2000]);
            frames = (0..k).map(|i| world::hex(&world::df11(0x100000 + i as u32, 5))).collect();
            receptions.clear();
            let mut id = 0u32;
            for pass in 0..2u64 {
                for i in 0..k {
                    let ms = base_ms + pass * 200 + (i as u64 * 150) / k as u64;
                    receptions.push(Reception { id, frame: i as u16, rx: pass as u8, ts_us: ts(ms, rng), at_ns: (ms - base_ms) * 1_000_000 });
                    id += 1;
                }
            }
            receptions.sort_by_key(|r| (r.ts_us, r.id));
            let mut at = 0u64;
            for r in receptions.iter_mut() {
                at = at.max(r.at_ns);
                r.at_ns = at;
            }
            mode = 0;
        }
        let n = receptions.len() as u32;
        let mut stalls = Vec::new();
        if rng.chance(0.5) {
            for _ in 0..rng.range(1, 3) {
                stalls.push(Stall {
                    after: rng.below(n.max(1) as u64) as u32,
                    dur_ns: *rng.pick(&[1_000_000u64, 50_000_000, 500_000_000, 5_000_000_000, 120_000_000_000]),
                });
            }
            stalls.sort_by_key(|s| s.after);
        }
        let consumer_crash_after = if rng.chance(0.07) {
            Some(rng.below(n.max(1) as u64) as u32)
        } else {
            None
        };
        let rx_crash_after = (0..n_rx)
            .map(|_| {
                if mode == 1 && rng.chance(0.08) {
                    Some(rng.below(n.max(1) as u64) as u32)
                } else {
                    None
                }
            })
            .collect();
        let cap = |rng: &mut Rng| *rng.pick(&[1usize, 1, 2, 3, 8, 50, 101, 201]);
        C10Plan {
            window_ms,
            cap_in: cap(rng),
            cap_out: cap(rng),
            frames,
            n_rx,
            mode,
            receptions,
            stalls,
            consumer_crash_after,
            rx_crash_after,
            flush: rng.chance(0.8),
            sched: SchedSpec::generate(rng, 4 * n + 16),
            junk: Vec::new(),
            legacy: false,
            upper_rx: None,
            close_input_early: rng.chance(0.25),
        }
    }

    fn execute(&self, plan: &C10Plan) -> Outcome<C10Plan> {
        execute(plan)
    }

    fn shrink(&self, p: &C10Plan) -> Vec<C10Plan> {
        let mut out = Vec::new();
        // drop faults first
        if !p.stalls.is_empty() {
            let mut q = p.clone();
            q.stalls.clear();
            out.push(q);
        }
        if p.consumer_crash_after.is_some() {
            let mut q = p.clone();
            q.consumer_crash_after = None;
            out.push(q);
        }
        if p.rx_crash_after.iter().any(|c| c.is_some()) {
            let mut q = p.clone();
            q.rx_crash_after = vec![None; p.n_rx as usize];
            out.push(q);
        }
        if p.sched.policy != 3 || p.sched.forced.is_some() {
            let mut q = p.clone();
            q.sched = SchedSpec::fifo();
            out.push(q);
        }
        if p.mode == 1 {
            let mut q = p.clone();
            q.mode = 0;
            out.push(q);
        }
        // drop receptions: halves, quarters, singles
        let n = p.receptions.len();
        let mut chunk = n / 2;
        while chunk >= 1 && out.len() * (n + 1) < 3_000_000 {
            let mut i = 0;
            while i < n && out.len() * (n + 1) < 3_000_000 {
                let mut q = p.clone();
                let hi = (i + chunk).min(n);
                q.receptions.drain(i..hi);
                out.push(q);
                i += chunk;
            }
            if chunk == 1 {
                break;
            }
            chunk /= 2;
        }
        if p.cap_in != 201 || p.cap_out != 201 {
            let mut q = p.clone();
            q.cap_in = 201;
            q.cap_out = 201;
            out.push(q);
        }
        // simplify timestamps: send everything at time 0
        if p.receptions.iter().any(|r| r.at_ns != 0) && p.mode == 0 {
            let mut q = p.clone();
            for r in q.receptions.iter_mut() {
                r.at_ns = 0;
            }
            out.push(q);
        }
        if p.flush {
            let mut q = p.clone();
            q.flush = false;
            out.push(q);
        }
        out
    }

    fn meta(&self) -> Meta {
        Meta {
            level: "exploration",
            rule: "One run = one seeded plan (frames, receivers with skewed/jumping clocks, reception history, channel capacities, consumer stalls/crash, receiver crashes, scheduler policy) executed once under the simulator with the real deduplicate_messages and real tokio mpsc channels. Distinct = distinct 64-bit hash of the ordered poll/timer/send/receive log of the run. Non-trivial = at least one fault or schedule perturbation fired (clock skew/jump, reordering between receivers, stall, crash, back-pressure suspension, or >1 runnable task at some step) AND at least one record was emitted and checked by the oracle.",
            components: vec![
                ("jet1090::dedup::deduplicate_messages", "real"),
                ("tokio::sync::mpsc channels (input and output, bounded)", "real"),
                ("rs1090 Message::from_bytes inside dedup", "real"),
                ("receivers (producer tasks holding Sender clones)", "stub"),
                ("consumer of deduplicated records", "stub"),
                ("tokio runtime / scheduler", "stub (seeded executor)"),
                ("clock", "stub (simulated time; dedup's decode_time uses the real clock but is never observed)"),
            ],
            assumptions: vec![
                "timestamps are kept at least 100 µs away from millisecond boundaries so that the window arithmetic (specified in ms) is unambiguous",
                "decodability of a frame is decided by the real decoder (trusted here as a pure function)",
                "interleavings are explored at await points of the tasks (channel operations); nothing else is shared",
            ],
            fault_kinds: vec![
                "clock_skew",
                "clock_jump",
                "nonmonotone_arrival",
                "duplicate_delivery",
                "consumer_stall",
                "consumer_crash",
                "receiver_crash",
                "backpressure_in",
                "backpressure_out",
            ],
            probes: vec![
                "late_joiner_past_expiry",
                "reopened_after_expiry",
                "equal_ms_stamps",
                "decreasing_stamps",
                "flush_with_3_open_groups",
                "undecodable_dropped",
                "monotone_history",
                "model_agrees",
                "model_disagrees",
                "window_zero",
            ],
        }
    }
    fn sample(&self, p: &C10Plan) -> serde_json::Value {
        let mut q = p.clone();
        if q.receptions.len() > 12 {
            q.receptions.truncate(12);
        }
        let mut v = serde_json::to_value(&q).unwrap();
        v["receptions_total"] = serde_json::json!(p.receptions.len());
        v
    }
}

#[derive(Clone, Debug)]
struct Emitted {
    frame: Vec<u8>,
    timestamp: f64,
    ids: Vec<u32>,
    decoded: bool,
}

struct Shared {
    /// reception ids in the order in which `send` completed (= channel order)
    arrivals: Vec<u32>,
    emitted: Vec<Emitted>,
    emitted_at_crash: Option<usize>,
    send_failed: Vec<u32>,
    producers_done: u32,
    flush_sent: bool,
    bp_in: u64,
    t_mark_ns: u64,
}

fn ms_of(ts_us: u64) -> u64 {
    ts_us / 1000
}
fn ts_f64(ts_us: u64) -> f64 {
    exec::EPOCH_S as f64 + ts_us as f64 * 1e-6
}
const FLUSH_ID: u32 = u32::MAX;

pub fn execute(plan: &C10Plan) -> Outcome<C10Plan> {
    let mut out = Outcome::new();
    out.evaluations = 1;
    out.sched_policy = plan.sched.policy_name();
    let mut sim = Sim::new(&plan.sched);
    let frames: Vec<Vec<u8>> = plan.frames.iter().map(|h| world::unhex(h)).collect();
    let decodable: Vec<bool> = frames
        .iter()
        .map(|f| Message::from_bytes((f, 0)).is_ok())
        .collect();

    let (tx, rx) = tokio::sync::mpsc::channel::<TimedMessage>(plan.cap_in.max(1));
    let (tx_out, mut rx_out) = tokio::sync::mpsc::channel::<TimedMessage>(plan.cap_out.max(1));
    let shared = Rc::new(RefCell::new(Shared {
        arrivals: Vec::new(),
        emitted: Vec::new(),
        emitted_at_crash: None,
        send_failed: Vec::new(),
        producers_done: 0,
        flush_sent: false,
        bp_in: 0,
        t_mark_ns: 0,
    }));
    let (done_tx, mut done_rx) = tokio::sync::mpsc::unbounded_channel::<()>();

    // the real deduplication task
    let window = plan.window_ms;
    let dedup_task = sim.spawn("dedup(real)", async move {
        crate::dedup::deduplicate_messages(rx, tx_out, window).await;
    });

    // producers
    let n_prod = if plan.mode == 0 { 1 } else { plan.n_rx as usize };
    let mk_msg = |r: &Reception, frames: &Vec<Vec<u8>>| TimedMessage {
        timestamp: ts_f64(r.ts_us),
        frame: frames[r.frame as usize % frames.len()].clone(),
        message: None,
        metadata: vec![SensorMetadata {
            system_timestamp: ts_f64(r.ts_us),
            gnss_timestamp: None,
            nanoseconds: None,
            rssi: None,
            serial: r.id as u64,
            name: Some(format!("rx{}", r.rx)),
        }],
        decode_time: None,
    };
    let mut producer_tasks = Vec::new();
    for j in 0..n_prod {
        let mine: Vec<(Reception, TimedMessage)> = plan
            .receptions
            .iter()
            .filter(|r| plan.mode == 0 || r.rx as usize % n_prod == j)
            .map(|r| (r.clone(), mk_msg(r, &frames)))
            .collect();
        let txj = tx.clone();
        let sh = shared.clone();
        let done = done_tx.clone();
        let crash_after = if plan.mode == 1 {
            plan.rx_crash_after.get(j).copied().flatten()
        } else {
            None
        };
        let t = sim.spawn("receiver(stub)", async move {
            let mut sent = 0u32;
            for (r, m) in mine {
                if let Some(c) = crash_after {
                    if sent >= c {
                        break; // receiver crash: the sender is dropped
                    }
                }
                exec::sleep_until_ns(r.at_ns).await;
                // measure back-pressure: would the send have to wait?
                if txj.capacity() == 0 {
                    sh.borrow_mut().bp_in += 1;
                }
                match txj.send(m).await {
                    Ok(()) => {
                        sh.borrow_mut().arrivals.push(r.id);
                        exec::log_u64(0x5E00_0000 | r.id as u64);
                        exec::trace(|| format!("rx{} sent id={} frame#{} ts_ms={}", r.rx, r.id, r.frame, ms_of(r.ts_us)));
                    }
                    Err(_) => {
                        sh.borrow_mut().send_failed.push(r.id);
                    }
                }
                sent += 1;
            }
            sh.borrow_mut().producers_done += 1;
            drop(txj);
            let _ = done.send(());
        });
        producer_tasks.push(t);
    }
    // flusher: after all producers are done, one more distinct frame stamped
    // after every window has closed; then the input side is closed
    {
        let sh = shared.clone();
        let max_ts = plan.receptions.iter().map(|r| r.ts_us).max().unwrap_or(0);
        let flush = plan.flush;
        let close_early = plan.close_input_early;
        let w = plan.window_ms as u64;
        let n_prod = n_prod as u32;
        let txf = tx;
        sim.spawn("flusher(stub)", async move {
            for _ in 0..n_prod {
                if done_rx.recv().await.is_none() {
                    break;
                }
            }
            if flush {
                let ts_us = (ms_of(max_ts) + w + 3) * 1000 + 500;
                let m = TimedMessage {
                    timestamp: ts_f64(ts_us),
                    // a DF11 frame no generator above produces (address ffffff)
                    frame: world::df11(0xFFFFFF, 7),
                    message: None,
                    metadata: vec![SensorMetadata {
                        system_timestamp: ts_f64(ts_us),
                        gnss_timestamp: None,
                        nanoseconds: None,
                        rssi: None,
                        serial: FLUSH_ID as u64,
                        name: None,
                    }],
                    decode_time: None,
                };
                if txf.send(m).await.is_ok() {
                    sh.borrow_mut().flush_sent = true;
                    exec::trace(|| format!("flush sent ts_ms={}", ms_of(ts_us)));
                }
                // give dedup the time to drain before the channel closes
            }
            // keep the input open until the system is otherwise idle: closing
            // it ends dedup, which (legitimately) drops the groups still open
            sh.borrow_mut().t_mark_ns = exec::now_ns();
            if !close_early {
                exec::sleep_ns(3_600_000_000_000).await;
            }
            // (dedup's loop ends; whatever window had been closed by an arrival
            // must nevertheless reach the consumer)
            drop(txf);
        });
    }
    // consumer
    {
        let sh = shared.clone();
        let stalls = plan.stalls.clone();
        let crash = plan.consumer_crash_after;
        sim.spawn("consumer(stub)", async move {
            let mut n = 0u32;
            let mut si = 0usize;
            loop {
                while si < stalls.len() && stalls[si].after <= n {
                    exec::log_u64(0x57A1);
                    exec::sleep_ns(stalls[si].dur_ns).await;
                    si += 1;
                }
                if let Some(c) = crash {
                    if n >= c {
                        let mut s = sh.borrow_mut();
                        s.emitted_at_crash = Some(s.emitted.len());
                        break; // consumer crash: receiver dropped
                    }
                }
                match rx_out.recv().await {
                    Some(m) => {
                        let ids: Vec<u32> = m.metadata.iter().map(|x| x.serial as u32).collect();
                        exec::log_u64(0xE000_0000 | ids.first().copied().unwrap_or(0) as u64);
                        exec::trace(|| format!("emitted frame={} ts={:.4} ids={:?}", world::hex(&m.frame), m.timestamp - exec::EPOCH_S as f64, ids));
                        sh.borrow_mut().emitted.push(Emitted {
                            frame: m.frame.clone(),
                            timestamp: m.timestamp,
                            ids,
                            decoded: m.message.is_some(),
                        });
                        n += 1;
                    }
                    None => break,
                }
            }
        });
    }

    let n_rec = plan.receptions.len() as u64;
    let cap = 400 + 60 * n_rec;
    let mut multi_ready = false;
    let end = sim.run(cap, |s, _id, _done| {
        if s.choice_points > 0 {
            multi_ready = true;
        }
        true
    });
    out.steps = sim.steps;
    let sh = shared.borrow();
    out.sim_ns = sh.t_mark_ns;

    // ---- oracle -------------------------------------------------------
    let by_id: HashMap<u32, &Reception> = plan.receptions.iter().map(|r| (r.id, r)).collect();
    let mut viol: Option<Violation> = None;
    let mut set = |v: Violation| {
        if viol.is_none() {
            viol = Some(v);
        }
    };
    // a panic inside the real task
    for p in &sim.panics {
        if p.file.contains("/verif/") || p.env_limit() {
            out.harness_error = Some(format!("driver panic in task {} at {}:{}: {}", p.task, p.file, p.line, p.msg));
        } else {
            set(Violation::new(
                "c10.panic",
                p.short_loc(),
                format!("task {} panicked at {}:{}: {}", p.task, p.file, p.line, p.msg),
            ));
        }
    }
    if end == RunEnd::StepCap {
        set(Violation::new(
            "c10.liveness",
            "step-cap",
            format!("no quiescence within {} steps; live tasks: {:?}", cap, sim.live_tasks()),
        ));
    }
    // producers must all finish (no deadlock) as long as dedup is alive
    if end == RunEnd::Quiescent && sh.producers_done < n_prod as u32 && sim.panics.is_empty() {
        set(Violation::new(
            "c10.liveness",
            "producers-blocked",
            format!("{} of {} producers finished; dedup done={}", sh.producers_done, n_prod, sim.is_done(dedup_task)),
        ));
    }

    let arrivals: Vec<u32> = sh.arrivals.clone();
    let pos_of: HashMap<u32, usize> = arrivals.iter().enumerate().map(|(i, id)| (*id, i)).collect();
    let crashed = sh.emitted_at_crash.is_some();

    // clause 1 (safety part): nothing invented, nothing duplicated
    let mut seen: HashMap<u32, usize> = HashMap::new();
    for (k, e) in sh.emitted.iter().enumerate() {
        if e.ids.is_empty() {
            set(Violation::new("c10.1-conservation", "empty-record", format!("record #{} carries no reception", k)));
        }
        for id in &e.ids {
            if *id == FLUSH_ID {
                continue;
            }
            if !pos_of.contains_key(id) {
                set(Violation::new("c10.1-conservation", "invented", format!("record #{} carries reception id {} that was never sent", k, id)));
            }
            if let Some(prev) = seen.insert(*id, k) {
                set(Violation::new(
                    "c10.1-conservation",
                    "duplicated",
                    format!("reception id {} appears in records #{} and #{}", id, prev, k),
                ));
            }
        }
    }
    // clause 2: record content
    // per-frame arrival subsequences
    let mut per_frame: BTreeMap<usize, Vec<u32>> = BTreeMap::new();
    for id in &arrivals {
        let r = by_id[id];
        per_frame.entry(r.frame as usize % frames.len()).or_default().push(*id);
    }
    let mut undecodable_emitted = 0u64;
    let mut without_message = 0u64;
    let mut next_in_frame: BTreeMap<usize, usize> = BTreeMap::new();
    for (k, e) in sh.emitted.iter().enumerate() {
        if e.ids.first() == Some(&FLUSH_ID) || e.ids.is_empty() {
            continue;
        }
        if !e.ids.iter().all(|id| by_id.contains_key(id)) {
            continue;
        }
        let first = by_id[&e.ids[0]];
        let fi = first.frame as usize % frames.len();
        if e.frame != frames[fi] || !e.ids.iter().all(|id| by_id[id].frame as usize % frames.len() == fi) {
            set(Violation::new("c10.2-content", "frame-mismatch", format!("record #{} mixes frames or carries a frame different from its members'", k)));
            continue;
        }
        // members in arrival order, contiguous block of that frame's arrivals,
        // blocks in order
        let seq = &per_frame[&fi];
        let start = *next_in_frame.get(&fi).unwrap_or(&0);
        let expect: Vec<u32> = seq.iter().skip(start).take(e.ids.len()).copied().collect();
        if expect != e.ids {
            let sorted = {
                let mut s = e.ids.clone();
                s.sort_by_key(|id| pos_of.get(id).copied().unwrap_or(usize::MAX));
                s
            };
            let loc = if sorted != e.ids { "member-order" } else { "not-contiguous" };
            set(Violation::new(
                "c10.2-content",
                loc,
                format!("record #{} of frame#{} lists receptions {:?}; that frame's arrivals from position {} are {:?}", k, fi, e.ids, start, expect),
            ));
        }
        next_in_frame.insert(fi, start + e.ids.len());
        // timestamp of the first arrival of the group
        let want = ts_f64(first.ts_us);
        if e.timestamp != want {
            set(Violation::new(
                "c10.2-content",
                "timestamp-not-first-arrival",
                format!("record #{} has timestamp {:.6}, its first-arrived member (id {}) was stamped {:.6}", k, e.timestamp, first.id, want),
            ));
        }
        // clause 3
        if !decodable[fi] {
            // (the property speaks of decodable receptions only; a record for an
            // undecodable frame is counted, not judged)
            undecodable_emitted += 1;
        }
        if !e.decoded {
            without_message += 1;
        }
    }

    out.count("undecodable_frame_emitted", undecodable_emitted);
    out.count("record_without_decoded_message", without_message);
    // monotone history? (raw stamps non-decreasing in arrival order)
    let stamps: Vec<u64> = arrivals.iter().map(|id| by_id[id].ts_us).collect();
    let monotone = stamps.windows(2).all(|w| w[0] <= w[1]);
    let w = plan.window_ms as u64;
    if monotone {
        out.count("monotone_history", 1);
        // clause 4: same frame never closer than the window; leave in order of first arrival
        let mut last_first: BTreeMap<usize, u64> = BTreeMap::new();
        let mut prev_first_ms: Option<u64> = None;
        for (k, e) in sh.emitted.iter().enumerate() {
            let Some(fid) = e.ids.first() else { continue };
            let Some(first) = by_id.get(fid) else { continue };
            let fi = first.frame as usize % frames.len();
            let fms = ms_of(first.ts_us);
            if let Some(p) = last_first.get(&fi) {
                if fms < p + w {
                    set(Violation::new(
                        "c10.4-window",
                        "same-frame-closer-than-window",
                        format!("records of frame#{} have first arrivals at {} ms and {} ms, window {} ms (record #{})", fi, p, fms, w, k),
                    ));
                }
            }
            last_first.insert(fi, fms);
            if let Some(p) = prev_first_ms {
                if fms < p {
                    set(Violation::new(
                        "c10.4-window",
                        "out-of-first-arrival-order",
                        format!("record #{} (first arrival {} ms) left after a record with first arrival {} ms", k, fms, p),
                    ));
                }
            }
            prev_first_ms = Some(fms);
        }
    } else {
        out.count("nonmonotone_arrival", 1);
    }

    // clause 1 (completeness) and clause 5 (timeliness), only when the
    // consumer did not crash and the run ended quiescent
    if !crashed && end == RunEnd::Quiescent && sim.panics.is_empty() {
        let last_ms = if sh.flush_sent {
            Some(u64::MAX)
        } else if monotone {
            stamps.last().map(|s| ms_of(*s))
        } else {
            None
        };
        if let Some(m) = last_ms {
            for id in &arrivals {
                let r = by_id[id];
                let fi = r.frame as usize % frames.len();
                if !decodable[fi] {
                    continue;
                }
                let due = if m == u64::MAX {
                    true
                } else {
                    ms_of(r.ts_us) + w + 1 <= m
                };
                if due && !seen.contains_key(id) {
                    let cls = if m == u64::MAX { "c10.1-conservation" } else { "c10.5-timeliness" };
                    set(Violation::new(
                        cls,
                        "lost",
                        format!(
                            "decodable reception id {} (frame#{}, {} ms) was never emitted although a later arrival ({}) closed its window of {} ms",
                            id,
                            fi,
                            ms_of(r.ts_us),
                            if m == u64::MAX { "flush".to_string() } else { format!("{} ms", m) },
                            w
                        ),
                    ));
                    break;
                }
            }
        }
    }

    // ---- reference model (agreement is reported, not demanded) --------
    {
        let mut open: BTreeMap<Vec<u8>, Vec<u32>> = BTreeMap::new();
        let mut heap: Vec<(u64, Vec<u8>)> = Vec::new();
        let mut model: Vec<Vec<u32>> = Vec::new();
        let mut feed = |id: u32, frame: &Vec<u8>, ms: u64, dec: bool, open: &mut BTreeMap<Vec<u8>, Vec<u32>>, heap: &mut Vec<(u64, Vec<u8>)>, model: &mut Vec<Vec<u32>>| {
            let e = open.entry(frame.clone()).or_default();
            e.push(id);
            if e.len() == 1 {
                heap.push((ms + w, frame.clone()));
            }
            let _ = dec;
            heap.sort();
            while let Some((exp, f)) = heap.first().cloned() {
                if exp > ms {
                    break;
                }
                heap.remove(0);
                if let Some(ids) = open.remove(&f) {
                    model.push(ids);
                }
            }
        };
        for id in &arrivals {
            let r = by_id[id];
            let fi = r.frame as usize % frames.len();
            feed(*id, &frames[fi], ms_of(r.ts_us) + exec::EPOCH_S * 1000, decodable[fi], &mut open, &mut heap, &mut model);
        }
        let model_dec: Vec<Vec<u32>> = model
            .into_iter()
            .filter(|ids| decodable[by_id[&ids[0]].frame as usize % frames.len()])
            .collect();
        let real: Vec<Vec<u32>> = sh
            .emitted
            .iter()
            .filter(|e| e.ids.first() != Some(&FLUSH_ID))
            .filter(|e| e.ids.first().and_then(|i| by_id.get(i)).map_or(true, |r| decodable[r.frame as usize % frames.len()]))
            .map(|e| e.ids.clone())
            .collect();
        // the flush arrival closes everything in the model too; compare the
        // prefix that the real system emitted before the flush
        let agree = if sh.flush_sent || crashed {
            real.iter().zip(model_dec.iter()).all(|(a, b)| a == b)
        } else {
            real == model_dec
        };
        out.count(if agree { "model_agrees" } else { "model_disagrees" }, 1);
        // The grouping itself is fixed by the property: a reception's window "has
        // closed" as soon as an arrival stamped at or after first arrival +
        // window has been consumed, so a group holds the first arrival and the
        // same-frame arrivals up to that point, no more (a group that outlives
        // its window swallows receptions that belong to the next record) and no
        // fewer. For histories with decreasing stamps "now" is the stamp of the
        // arrival being consumed: that is the executable reference model the
        // property's quantifier names. The order of records whose windows close
        // on the same arrival is not fixed, hence the comparison as sets.
        if !crashed && end == RunEnd::Quiescent && sim.panics.is_empty() {
            let mut a: Vec<Vec<u32>> = real.clone();
            let mut b: Vec<Vec<u32>> = if sh.flush_sent { model_dec.clone() } else { model_dec.iter().take(real.len()).cloned().collect() };
            if sh.flush_sent {
                // everything is closed by the flush in both
                for ids in open.values() {
                    if decodable[by_id[&ids[0]].frame as usize % frames.len()] {
                        b.push(ids.clone());
                    }
                }
            }
            a.sort();
            b.sort();
            // The window is specified in milliseconds, the stamps are finer: an
            // arrival that falls in the very millisecond in which a window ends
            // closes it under the millisecond reading (what the code does today)
            // and may not under the real-valued reading. Both groupings are
            // accepted.
            let b_fine: Vec<Vec<u32>> = {
                let arr: Vec<(u32, usize, u64)> = arrivals.iter().map(|id| (*id, by_id[id].frame as usize % frames.len(), by_id[id].ts_us)).collect();
                let (closed, still_open) = reference_model(&arr, w * 1000);
                let mut v: Vec<Vec<u32>> = closed.into_iter().chain(still_open.into_iter()).filter(|g| decodable[by_id[&g[0]].frame as usize % frames.len()]).collect();
                v.sort();
                v
            };
            if sh.flush_sent && a != b && a != b_fine && viol.is_none() {
                let extra = a.iter().find(|g| !b.contains(g)).cloned().unwrap_or_default();
                let want = b.iter().find(|g| g.first() == extra.first()).cloned().unwrap_or_default();
                viol = Some(Violation::new(
                    "c10.5-timeliness",
                    if monotone { "group-differs-from-window" } else { "group-differs-from-reference-model" },
                    format!(
                        "{} history, window {} ms: record with receptions {:?} was emitted, but the window opened by reception {} closes with receptions {:?} (stamps ms: {:?})",
                        if monotone { "monotone" } else { "non-monotone" },
                        w,
                        extra,
                        extra.first().copied().unwrap_or(0),
                        want,
                        extra.iter().map(|i| ms_of(by_id[i].ts_us)).collect::<Vec<_>>()
                    ),
                ));
            }
        }
        if sh.flush_sent && open.len() >= 3 {
            out.count("flush_with_3_open_groups", 1);
        }
    }

    // ---- probes / fault counters ---------------------------------------
    {
        // what fired
        let skewed = plan.mode == 1 && !monotone;
        if skewed {
            out.count("clock_skew", 1);
        }
        let mut dec = 0u64;
        let mut eq = 0u64;
        for wd in stamps.windows(2) {
            if wd[1] < wd[0] {
                dec += 1;
            }
            if ms_of(wd[1]) == ms_of(wd[0]) {
                eq += 1;
            }
        }
        out.count("decreasing_stamps", dec);
        out.count("equal_ms_stamps", eq);
        if stamps.windows(2).any(|x| x[1] + 30_000_000 < x[0] || x[0] + 30_000_000 < x[1]) {
            out.count("clock_jump", 1);
        }
        let dups = plan
            .receptions
            .windows(2)
            .filter(|x| x[0].frame == x[1].frame && x[0].rx == x[1].rx && x[1].id == x[0].id + 1)
            .count() as u64;
        out.count("duplicate_delivery", dups.min(1));
        out.count("consumer_stall", plan.stalls.len() as u64);
        if crashed {
            out.count("consumer_crash", 1);
        }
        if plan.mode == 1 && plan.rx_crash_after.iter().any(|c| c.map_or(false, |c| (c as usize) < plan.receptions.len())) {
            out.count("receiver_crash", 1);
        }
        out.count("backpressure_in", sh.bp_in);
        if plan.cap_out <= 3 && !plan.stalls.is_empty() && sh.emitted.len() > plan.cap_out {
            out.count("backpressure_out", 1);
        }
        if plan.window_ms == 0 {
            out.count("window_zero", 1);
        }
        // group shapes
        let mut last_first: BTreeMap<usize, u64> = BTreeMap::new();
        for e in sh.emitted.iter() {
            let Some(first) = e.ids.first().and_then(|i| by_id.get(i)) else { continue };
            let fi = first.frame as usize;
            let fms = ms_of(first.ts_us);
            if let Some(last) = e.ids.last().and_then(|i| by_id.get(i)) {
                if e.ids.len() > 1 && ms_of(last.ts_us) >= fms + w {
                    out.count("late_joiner_past_expiry", 1);
                }
            }
            if last_first.contains_key(&fi) {
                out.count("reopened_after_expiry", 1);
            }
            last_first.insert(fi, fms);
        }
        let und = arrivals.iter().filter(|id| !decodable[by_id[id].frame as usize % frames.len()]).count() as u64;
        out.count("undecodable_dropped", und);
    }

    let mut sig = Fnv::new();
    sig.u64(exec::log_hash());
    out.log_hash = {
        let mut f = Fnv::new();
        f.u64(exec::log_hash());
        for e in sh.emitted.iter() {
            f.bytes(&e.frame);
            f.u64(e.timestamp.to_bits());
            for id in &e.ids {
                f.u64(*id as u64);
            }
        }
        f.u64(viol.is_some() as u64);
        f.0
    };
    out.sigs.push(sig.0);
    let perturbed = !monotone
        || !plan.stalls.is_empty()
        || crashed
        || sh.bp_in > 0
        || multi_ready
        || plan.rx_crash_after.iter().any(|c| c.is_some());
    if perturbed && sh.emitted.iter().any(|e| e.ids.first() != Some(&FLUSH_ID)) {
        out.nontrivial_sigs.push(sig.0);
    }
    {
        // oracle-side state: shape of the emitted grouping
        let mut f = Fnv::new();
        for e in sh.emitted.iter() {
            f.u64(e.ids.len() as u64);
        }
        f.u64(monotone as u64);
        out.oracle_states.push(f.0);
    }
    out.violation = viol;
    out
}

// ======================================================================
// Secondary subject: the copy of the algorithm inlined in decode1090's
// main(). It can only be run as a process: the same generated histories are
// written as a JSONL file, the real binary is executed on it, and the history
// clauses are applied to its standard output. Deterministic: one task, no
// clock; the "disk" is a plain file written before the process starts.

pub struct Decode1090Proc;

fn scratch_dir() -> String {
    let d = std::env::var("VERIF_SCRATCH").unwrap_or_else(|_| "/verif/.target/scratch".to_string());
    let _ = std::fs::create_dir_all(&d);
    d
}

impl Scenario for Decode1090Proc {
    type Plan = C10Plan;
    fn id(&self) -> &'static str {
        "C10"
    }
    fn kind(&self) -> &'static str {
        "decode1090"
    }
    fn seed_tag(&self) -> String {
        "C10/decode1090".to_string()
    }
    fn runs(&self, tier: Tier) -> u64 {
        match tier {
            Tier::Quick => 800,
            Tier::Thorough => 40_000,
        }
    }
    fn generate(&self, rng: &mut Rng, tier: Tier, idx: u64) -> C10Plan {
        let mut p = C10.generate(rng, tier, idx);
        // what does not exist for a file: scheduling, channels, crashes
        p.stalls.clear();
        p.consumer_crash_after = None;
        p.rx_crash_after = vec![None; p.n_rx as usize];
        p.sched = SchedSpec::fifo();
        p.flush = false;
        if p.window_ms == 0 {
            p.window_ms = 400; // decode1090's default
        }
        // a recording damaged on disk or in transfer: lines that cannot be read
        // are skipped, the receptions on the intact lines are still conserved
        if rng.chance(0.4) {
            for _ in 0..rng.usize(1, 3) {
                p.junk.push((rng.below(p.receptions.len() as u64 + 1) as u32, rng.below(5) as u8));
            }
            p.junk.sort();
        }
        p.legacy = rng.chance(0.3);
        if rng.chance(0.3) {
            p.upper_rx = Some(rng.below(p.n_rx.max(1) as u64) as u8);
        }
        if rng.chance(0.01) {
            // a long recording: more lines than any slice, buffer or 16-bit index
            let k = p.frames.len().max(1);
            let n = rng.usize(66_000, 70_000);
            let mut ms = 100_000u64;
            p.receptions.clear();
            for i in 0..n {
                ms += *rng.pick(&[0u64, 1, 3, 20, 90, 250]);
                p.receptions.push(Reception { id: i as u32, frame: (if rng.chance(0.5) { i / 2 } else { rng.usize(0, k - 1) } % k) as u16, rx: (i % p.n_rx.max(1) as usize) as u8, ts_us: ts(ms, rng), at_ns: 0 });
            }
            p.junk.clear();
        }
        p
    }
    fn execute(&self, plan: &C10Plan) -> Outcome<C10Plan> {
        execute_decode1090(plan)
    }
    fn shrink(&self, p: &C10Plan) -> Vec<C10Plan> {
        let mut out = Vec::new();
        for j in 0..p.junk.len() {
            let mut q = p.clone();
            q.junk.remove(j);
            out.push(q);
        }
        let n = p.receptions.len();
        let mut chunk = n / 2;
        while chunk >= 1 && out.len() * (n + 1) < 3_000_000 {
            let mut i = 0;
            while i < n && out.len() * (n + 1) < 3_000_000 {
                let mut q = p.clone();
                q.receptions.drain(i..(i + chunk).min(n));
                for jk in q.junk.iter_mut() {
                    if jk.0 as usize >= (i + chunk).min(n) {
                        jk.0 -= ((i + chunk).min(n) - i) as u32;
                    } else if jk.0 as usize > i {
                        jk.0 = i as u32;
                    }
                }
                out.push(q);
                i += chunk;
            }
            if chunk == 1 {
                break;
            }
            chunk /= 2;
        }
        out
    }
    fn meta(&self) -> Meta {
        Meta {
            level: "exploration",
            rule: "One run = one generated reception history written as a JSONL file and decoded by the real decode1090 binary (its own inlined copy of the deduplication algorithm, including the end-of-file flush); the conservation, content, window and ordering clauses are applied to its standard output. Distinct = distinct hash of the history (frame index, ms stamp, receiver per line). Non-trivial = the history has equal, decreasing or window-straddling stamps or a re-opened frame AND at least one record was printed.",
            components: vec![
                ("decode1090 binary (main(): JSONL reader, inlined deduplication, end-of-file flush, decode_position, JSON output)", "real (separate process)"),
                ("input file", "stub (written by the driver before the process starts; damaged lines injected: non-UTF-8 bytes, non-JSON text, a line cut short, an empty line, JSON of another shape)"),
            ],
            assumptions: vec!["output timestamps are compared with a tolerance of 10 µs (JSON text round trip)", "a reception on a damaged line is not in the file; every reception on an intact line is"],
            fault_kinds: vec!["nonmonotone_arrival", "duplicate_delivery", "eof_with_open_groups", "damaged_line", "legacy_format", "upper_case_hex_line", "no_final_newline"],
            probes: vec!["records_printed", "monotone_history", "eof_with_3_open_groups", "reopened_after_expiry"],
        }
    }
    fn sample(&self, p: &C10Plan) -> serde_json::Value {
        C10.sample(p)
    }
}

/// The executable reference model of the property: groups keyed by frame, a
/// group opened at stamp t expires at t + window, and every arrival first joins
/// (or opens) its group and then closes every group whose expiry is not after
/// the arrival's own stamp. Returns the groups closed so far and the ones still
/// open, each as the list of reception ids in arrival order.
pub fn reference_model(arrivals: &[(u32, usize, u64)], w: u64) -> (Vec<Vec<u32>>, Vec<Vec<u32>>) {
    let mut open: BTreeMap<usize, Vec<u32>> = BTreeMap::new();
    let mut heap: std::collections::BinaryHeap<std::cmp::Reverse<(u64, usize)>> = std::collections::BinaryHeap::new();
    let mut closed: Vec<Vec<u32>> = Vec::new();
    for &(id, frame, ms) in arrivals {
        let e = open.entry(frame).or_default();
        e.push(id);
        if e.len() == 1 {
            heap.push(std::cmp::Reverse((ms + w, frame)));
        }
        while let Some(std::cmp::Reverse((exp, f))) = heap.peek().copied() {
            if exp > ms {
                break;
            }
            heap.pop();
            if let Some(ids) = open.remove(&f) {
                closed.push(ids);
            }
        }
    }
    (closed, open.into_values().collect())
}

pub fn execute_decode1090(plan: &C10Plan) -> Outcome<C10Plan> {
    let mut out = Outcome::new();
    out.evaluations = 1;
    let Ok(bin) = std::env::var("VERIF_DECODE1090") else {
        out.harness_error = Some("VERIF_DECODE1090 (path of the decode1090 binary) is not set".to_string());
        return out;
    };
    let frames: Vec<Vec<u8>> = plan.frames.iter().map(|h| world::unhex(h)).collect();
    let decodable: Vec<bool> = frames.iter().map(|f| Message::from_bytes((f, 0)).is_ok()).collect();
    let mut text: Vec<u8> = Vec::new();
    let mut ji = 0usize;
    let push_junk = |text: &mut Vec<u8>, kind: u8| match kind {
        0 => text.extend_from_slice(b"{\"timestamp\":1.0,\"frame\":\"\xff\xfe\x80 damaged\"}\n"),
        1 => text.extend_from_slice(b"### recording resumed ###\n"),
        2 => text.extend_from_slice(b"{\"timestamp\":1767225700.5,\"frame\":\"8d406b902015a678d4d220aa4bda\",\"metad\n"),
        3 => text.extend_from_slice(b"\n"),
        _ => text.extend_from_slice(b"{\"ts\":12,\"hex\":\"8d406b902015a678d4d220aa4bda\"}\n"),
    };
    for (ri, r) in plan.receptions.iter().enumerate() {
        while ji < plan.junk.len() && plan.junk[ji].0 as usize <= ri {
            push_junk(&mut text, plan.junk[ji].1);
            out.count("damaged_line", 1);
            ji += 1;
        }
        let fi = r.frame as usize % frames.len();
        let upper = plan.upper_rx == Some(r.rx);
        let frame_text = if upper { plan.frames[fi].to_uppercase() } else { plan.frames[fi].clone() };
        if upper {
            out.count("upper_case_hex_line", 1);
        }
        if plan.legacy {
            // older recordings: no metadata list, an rssi per line (which carries
            // the reception id here: small integers are exact in f32)
            text.extend_from_slice(format!("{{\"timestamp\":{},\"frame\":\"{}\",\"rssi\":{}.0}}\n", ts_f64(r.ts_us), frame_text, r.id).as_bytes());
            continue;
        }
        text.extend_from_slice(format!(
            "{{\"timestamp\":{},\"frame\":\"{}\",\"metadata\":[{{\"system_timestamp\":{},\"serial\":{},\"name\":\"rx{}\"}}]}}\n",
            ts_f64(r.ts_us),
            frame_text,
            ts_f64(r.ts_us),
            r.id,
            r.rx
        ).as_bytes());
    }
    while ji < plan.junk.len() {
        push_junk(&mut text, plan.junk[ji].1);
        out.count("damaged_line", 1);
        ji += 1;
    }
    // a recording that does not end with a newline (copied, truncated by an
    // editor, written by another tool): its last line is a reception like the others
    if plan.receptions.len() % 5 < 2 && text.last() == Some(&b'\n') && plan.junk.last().map_or(true, |j| (j.0 as usize) < plan.receptions.len()) {
        text.pop();
        out.count("no_final_newline", 1);
    }
    let mut h = Fnv::new();
    h.bytes(&text);
    h.u64(plan.window_ms as u64);
    let path = format!("{}/c10-{:016x}-{:?}.jsonl", scratch_dir(), h.0, std::thread::current().id());
    if let Err(e) = std::fs::write(&path, &text) {
        out.harness_error = Some(format!("cannot write {}: {}", path, e));
        return out;
    }
    let res = std::process::Command::new(&bin)
        .args(["-i", &path, "-d", &plan.window_ms.to_string()])
        .output();
    let _ = std::fs::remove_file(&path);
    let o = match res {
        Ok(o) => o,
        Err(e) => {
            out.harness_error = Some(format!("cannot run {}: {}", bin, e));
            return out;
        }
    };
    let mut viol: Option<Violation> = None;
    let mut set = |v: Violation| {
        if viol.is_none() {
            viol = Some(v);
        }
    };
    if !o.status.success() {
        let err = String::from_utf8_lossy(&o.stderr);
        set(Violation::new(
            "c10.panic",
            "decode1090-exit",
            format!("decode1090 exited with {:?}: {}", o.status.code(), err.lines().find(|l| l.contains("panicked")).unwrap_or("").to_string()),
        ));
    }
    // parse the records
    struct Rec {
        frame: Vec<u8>,
        ts: f64,
        ids: Vec<u32>,
    }
    let mut recs: Vec<Rec> = Vec::new();
    for line in String::from_utf8_lossy(&o.stdout).lines() {
        let Ok(v) = serde_json::from_str::<serde_json::Value>(line) else { continue };
        let frame = world::unhex(v["frame"].as_str().unwrap_or(""));
        let ts = v["timestamp"].as_f64().unwrap_or(0.0);
        let legacy = plan.legacy;
        let ids = v["metadata"]
            .as_array()
            .map(|a| {
                a.iter()
                    .map(|m| if legacy { m["rssi"].as_f64().map(|x| x as u32).unwrap_or(u32::MAX) } else { m["serial"].as_u64().unwrap_or(u64::MAX) as u32 })
                    .collect()
            })
            .unwrap_or_default();
        recs.push(Rec { frame, ts, ids });
    }
    out.count("records_printed", recs.len() as u64);
    let by_id: HashMap<u32, &Reception> = plan.receptions.iter().map(|r| (r.id, r)).collect();
    let pos_of: HashMap<u32, usize> = plan.receptions.iter().enumerate().map(|(i, r)| (r.id, i)).collect();
    let w = plan.window_ms as u64;
    // conservation
    let mut seen: HashMap<u32, usize> = HashMap::new();
    for (k, e) in recs.iter().enumerate() {
        for id in &e.ids {
            if !by_id.contains_key(id) {
                set(Violation::new("c10.1-conservation", "invented", format!("decode1090 record #{} carries reception id {} that is not in the file", k, id)));
            } else if let Some(p) = seen.insert(*id, k) {
                set(Violation::new("c10.1-conservation", "duplicated", format!("reception id {} appears in decode1090 records #{} and #{}", id, p, k)));
            }
        }
    }
    for r in &plan.receptions {
        let fi = r.frame as usize % frames.len();
        if decodable[fi] && !seen.contains_key(&r.id) && o.status.success() {
            set(Violation::new("c10.1-conservation", "lost", format!("decodable reception id {} (frame#{}) is in the file but in no record printed by decode1090", r.id, fi)));
            break;
        }
    }
    // content
    let mut per_frame: BTreeMap<usize, Vec<u32>> = BTreeMap::new();
    for r in &plan.receptions {
        per_frame.entry(r.frame as usize % frames.len()).or_default().push(r.id);
    }
    let mut next_in_frame: BTreeMap<usize, usize> = BTreeMap::new();
    for (k, e) in recs.iter().enumerate() {
        if e.ids.is_empty() || !e.ids.iter().all(|id| by_id.contains_key(id)) {
            continue;
        }
        let first = by_id[&e.ids[0]];
        let fi = first.frame as usize % frames.len();
        if e.frame != frames[fi] || !e.ids.iter().all(|id| by_id[id].frame as usize % frames.len() == fi) {
            set(Violation::new("c10.2-content", "frame-mismatch", format!("decode1090 record #{} mixes frames", k)));
            continue;
        }
        let start = *next_in_frame.get(&fi).unwrap_or(&0);
        let expect: Vec<u32> = per_frame[&fi].iter().skip(start).take(e.ids.len()).copied().collect();
        if expect != e.ids {
            let mut sorted = e.ids.clone();
            sorted.sort_by_key(|id| pos_of[id]);
            set(Violation::new(
                "c10.2-content",
                if sorted != e.ids { "member-order" } else { "not-contiguous" },
                format!("decode1090 record #{} of frame#{} lists receptions {:?}; that frame's lines from position {} are {:?}", k, fi, e.ids, start, expect),
            ));
        }
        next_in_frame.insert(fi, start + e.ids.len());
        if (e.ts - ts_f64(first.ts_us)).abs() > 1e-5 {
            set(Violation::new(
                "c10.2-content",
                "timestamp-not-first-arrival",
                format!("decode1090 record #{} has timestamp {:.6}, its first member (id {}) is stamped {:.6}", k, e.ts, first.id, ts_f64(first.ts_us)),
            ));
        }
        if !decodable[fi] {
            out.count("undecodable_frame_emitted", 1);
        }
    }
    // window and order, monotone histories
    let stamps: Vec<u64> = plan.receptions.iter().map(|r| r.ts_us).collect();
    let monotone = stamps.windows(2).all(|x| x[0] <= x[1]);
    if monotone {
        out.count("monotone_history", 1);
        let mut last_first: BTreeMap<usize, u64> = BTreeMap::new();
        let mut prev: Option<u64> = None;
        for (k, e) in recs.iter().enumerate() {
            let Some(first) = e.ids.first().and_then(|i| by_id.get(i)) else { continue };
            let fi = first.frame as usize % frames.len();
            let fms = ms_of(first.ts_us);
            if let Some(p) = last_first.get(&fi) {
                out.count("reopened_after_expiry", 1);
                if fms < p + w {
                    set(Violation::new("c10.4-window", "same-frame-closer-than-window", format!("decode1090 records of frame#{} have first arrivals at {} ms and {} ms, window {} ms", fi, p, fms, w)));
                }
            }
            last_first.insert(fi, fms);
            if let Some(p) = prev {
                if fms < p {
                    set(Violation::new("c10.4-window", "out-of-first-arrival-order", format!("decode1090 record #{} (first arrival {} ms) was printed after a record with first arrival {} ms", k, fms, p)));
                }
            }
            prev = Some(fms);
        }
    } else {
        out.count("nonmonotone_arrival", 1);
    }
    // grouping against the reference model (at end of file every open group is printed)
    if o.status.success() {
        let arr: Vec<(u32, usize, u64)> = plan.receptions.iter().map(|r| (r.id, r.frame as usize % frames.len(), ms_of(r.ts_us))).collect();
        let (closed, open) = reference_model(&arr, w);
        let mut want: Vec<Vec<u32>> = closed.into_iter().chain(open.into_iter()).filter(|g| decodable[by_id[&g[0]].frame as usize % frames.len()]).collect();
        let mut got: Vec<Vec<u32>> = recs
            .iter()
            .filter(|e| e.ids.first().and_then(|i| by_id.get(i)).map_or(true, |r| decodable[r.frame as usize % frames.len()]))
            .map(|e| e.ids.clone())
            .collect();
        want.sort();
        got.sort();
        // (the millisecond reading and the real-valued reading of the window are both accepted)
        let want_fine: Vec<Vec<u32>> = {
            let arr: Vec<(u32, usize, u64)> = plan.receptions.iter().map(|r| (r.id, r.frame as usize % frames.len(), r.ts_us)).collect();
            let (closed, open) = reference_model(&arr, w * 1000);
            let mut v: Vec<Vec<u32>> = closed.into_iter().chain(open.into_iter()).filter(|g| decodable[by_id[&g[0]].frame as usize % frames.len()]).collect();
            v.sort();
            v
        };
        if want != got && want_fine != got {
            let extra = got.iter().find(|g| !want.contains(g)).cloned().unwrap_or_default();
            let expect = want.iter().find(|g| g.first() == extra.first()).cloned().unwrap_or_default();
            set(Violation::new(
                "c10.5-timeliness",
                if monotone { "group-differs-from-window" } else { "group-differs-from-reference-model" },
                format!("decode1090 printed a record with receptions {:?}; the window opened by reception {} (window {} ms) closes with receptions {:?}", extra.iter().take(12).collect::<Vec<_>>(), extra.first().copied().unwrap_or(0), w, expect.iter().take(12).collect::<Vec<_>>()),
            ));
        }
    }
    // open groups at end of file (flush path)
    if let Some(last) = stamps.iter().max() {
        let mut firsts: BTreeMap<usize, u64> = BTreeMap::new();
        let mut open = 0;
        for e in recs.iter() {
            if let Some(first) = e.ids.first().and_then(|i| by_id.get(i)) {
                firsts.insert(first.frame as usize, ms_of(first.ts_us));
                if ms_of(first.ts_us) + w > ms_of(*last) {
                    open += 1;
                }
            }
        }
        out.count("eof_with_open_groups", (open > 0) as u64);
        out.count("eof_with_3_open_groups", (open >= 3) as u64);
    }
    if plan.receptions.windows(2).any(|x| x[0].frame == x[1].frame && x[0].rx == x[1].rx) {
        out.count("duplicate_delivery", 1);
    }
    if plan.legacy {
        out.count("legacy_format", 1);
    }
    let mut sig = Fnv::new();
    for r in &plan.receptions {
        sig.u64(((r.frame as u64) << 48) ^ (ms_of(r.ts_us) << 8) ^ r.rx as u64);
    }
    sig.u64(w);
    out.sigs.push(sig.0);
    let shaped = !monotone || stamps.windows(2).any(|x| ms_of(x[0]) == ms_of(x[1]));
    if shaped && !recs.is_empty() {
        out.nontrivial_sigs.push(sig.0);
    }
    out.log_hash = {
        let mut f = Fnv::new();
        f.bytes(&o.stdout);
        f.u64(viol.is_some() as u64);
        f.0
    };
    out.steps = plan.receptions.len() as u64;
    out.violation = viol;
    out
}


// ======================================================================
// Exhaustive layer: every history of up to L receptions over 3 frames (two
// decodable, one undecodable) x a grid of 6 timestamps (equal, decreasing,
// exactly one window apart, one unit more or less), for a window of 2 grid
// units and for window 0, each executed under the simulator with the real
// dedup task and judged by the same oracle as the seeded search. One "run" of
// the batch is a block of consecutive histories of the enumeration.

pub struct C10Grid;

#[derive(Clone, Debug, Serialize, Deserialize)]
pub struct GridPlan {
    /// longest history enumerated
    pub len_max: u8,
    /// block [start, start + count) of the enumeration
    pub start: u64,
    pub count: u64,
    /// the one history that violates (replay files)
    #[serde(default, skip_serializing_if = "Option::is_none")]
    pub explicit: Option<C10Plan>,
}

const GRID_SYMBOLS: u64 = 18; // 3 frames x 6 stamps
const GRID_UNIT_MS: u64 = 100;
const GRID_WINDOWS: [u32; 2] = [200, 0];
const GRID_BLOCK: u64 = 512;

fn grid_total(len_max: u8) -> u64 {
    let mut per_window = 0u64;
    let mut p = 1u64;
    for _ in 0..len_max {
        p *= GRID_SYMBOLS;
        per_window += p;
    }
    per_window * GRID_WINDOWS.len() as u64
}

fn grid_history(len_max: u8, g: u64) -> C10Plan {
    let per_window = grid_total(len_max) / GRID_WINDOWS.len() as u64;
    let window_ms = GRID_WINDOWS[(g / per_window) as usize % GRID_WINDOWS.len()];
    let mut r = g % per_window;
    let mut len = 1u32;
    let mut p = GRID_SYMBOLS;
    while r >= p {
        r -= p;
        p *= GRID_SYMBOLS;
        len += 1;
    }
    let mut receptions = Vec::new();
    for i in 0..len {
        let d = r % GRID_SYMBOLS;
        r /= GRID_SYMBOLS;
        let (frame, stamp) = (d / 6, d % 6);
        receptions.push(Reception {
            id: i,
            frame: frame as u16,
            rx: (i % 3) as u8,
            ts_us: (100_000 + GRID_UNIT_MS * stamp) * 1000 + 500,
            at_ns: 0,
        });
    }
    let mut undec = world::unhex(REAL_FRAMES[2]);
    undec[13] ^= 0x10;
    C10Plan {
        window_ms,
        cap_in: 8,
        cap_out: 8,
        frames: vec![REAL_FRAMES[0].to_string(), REAL_FRAMES[1].to_string(), world::hex(&undec)],
        n_rx: 3,
        mode: 0,
        receptions,
        stalls: Vec::new(),
        consumer_crash_after: None,
        rx_crash_after: vec![None; 3],
        flush: true,
        sched: SchedSpec::fifo(),
        junk: Vec::new(),
        legacy: false,
        upper_rx: None,
        close_input_early: false,
    }
}

impl Scenario for C10Grid {
    type Plan = GridPlan;
    fn id(&self) -> &'static str {
        "C10"
    }
    fn kind(&self) -> &'static str {
        "grid"
    }
    fn seed_tag(&self) -> String {
        "C10/grid".to_string()
    }
    fn runs(&self, tier: Tier) -> u64 {
        let l = if tier == Tier::Quick { 4 } else { 5 };
        (grid_total(l) + GRID_BLOCK - 1) / GRID_BLOCK
    }
    fn generate(&self, _rng: &mut Rng, tier: Tier, idx: u64) -> GridPlan {
        GridPlan { len_max: if tier == Tier::Quick { 4 } else { 5 }, start: idx * GRID_BLOCK, count: GRID_BLOCK, explicit: None }
    }
    fn execute(&self, plan: &GridPlan) -> Outcome<GridPlan> {
        if let Some(p) = &plan.explicit {
            let o = execute(p);
            let mut out: Outcome<GridPlan> = Outcome::new();
            out.violation = o.violation;
            out.harness_error = o.harness_error;
            out.evaluations = 1;
            out.log_hash = o.log_hash;
            return out;
        }
        let mut out: Outcome<GridPlan> = Outcome::new();
        let total = grid_total(plan.len_max);
        let mut log = Fnv::new();
        for g in plan.start..(plan.start + plan.count).min(total) {
            let p = grid_history(plan.len_max, g);
            let o = execute(&p);
            out.evaluations += 1;
            out.steps += o.steps;
            log.u64(o.log_hash);
            for (k, n) in &o.counters {
                out.count(k, *n);
            }
            // signature of a history = its index: every history is distinct
            let mut f = Fnv::new();
            f.u64(g);
            out.sigs.push(f.0);
            if p.receptions.windows(2).any(|w| w[1].ts_us <= w[0].ts_us) && !o.oracle_states.is_empty() {
                out.nontrivial_sigs.push(f.0);
            }
            out.oracle_states.extend(o.oracle_states);
            if let Some(e) = o.harness_error {
                out.harness_error = Some(e);
                break;
            }
            if let Some(v) = o.violation {
                out.violation = Some(v);
                out.narrowed = Some(GridPlan { len_max: plan.len_max, start: g, count: 1, explicit: Some(p) });
                break;
            }
        }
        out.log_hash = log.0;
        out.sched_policy = "fifo";
        out
    }
    fn shrink(&self, p: &GridPlan) -> Vec<GridPlan> {
        match &p.explicit {
            Some(e) => C10.shrink(e).into_iter().map(|q| GridPlan { len_max: p.len_max, start: p.start, count: 1, explicit: Some(q) }).collect(),
            None => Vec::new(),
        }
    }
    fn exhaustive(&self, _tier: Tier) -> bool {
        true
    }
    fn meta(&self) -> Meta {
        Meta {
            level: "exploration",
            rule: "Exhaustive enumeration of short histories: every sequence of 1..L receptions (L = 4 quick, 5 thorough) over 3 frames (two decodable, one undecodable) x 6 grid timestamps 100 ms apart (so equal, decreasing, exactly-one-window-apart and one-unit-off stamps all occur), for a window of 200 ms and for window 0, each followed by a flush arrival and executed under the simulator with the real deduplicate_messages and real channels; same oracle as the seeded search. Distinct = one per history. Non-trivial = the history has equal or decreasing stamps and at least one record was emitted.",
            components: vec![
                ("jet1090::dedup::deduplicate_messages", "real"),
                ("tokio::sync::mpsc channels", "real"),
                ("receivers / consumer / scheduler", "stub (single producer, FIFO scheduler: the history is the only variable here)"),
            ],
            assumptions: vec!["the grid bounds the history length (4 / 5), the number of frames (3) and the timestamps (6 values); longer and denser histories are covered by the seeded search only"],
            fault_kinds: vec!["nonmonotone_arrival", "equal_ms_stamps", "decreasing_stamps"],
            probes: vec!["monotone_history", "reopened_after_expiry", "late_joiner_past_expiry", "undecodable_dropped", "model_agrees", "model_disagrees", "window_zero"],
        }
    }
    fn sample(&self, p: &GridPlan) -> serde_json::Value {
        serde_json::json!({"block": [p.start, p.count], "len_max": p.len_max, "first_history_of_block": C10.sample(&grid_history(p.len_max, p.start))})
    }
}
