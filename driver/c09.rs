// C09 — Beast stream framing is lossless and independent of read chunking.
//
// System under test: the real `rs1090::source::beast::next_msg` (async_stream
// state machine with its reassembly buffer) reading from the simulated
// transport `SimPipe` through hook H2 (DataSource::Verif), polled by the
// simulator's executor. Stub: the socket.

use super::batch::{Meta, Outcome, Scenario, Tier, Violation};
use super::exec::{self, RunEnd, SchedSpec, Sim};
use super::rng::{Fnv, Rng};
use super::world::{hex, unhex};
use futures_util::pin_mut;
use futures_util::stream::StreamExt;
use rs1090::source::beast::{next_msg, DataSource};
use serde::{Deserialize, Serialize};
use std::cell::RefCell;
use std::pin::Pin;
use std::rc::Rc;
use std::sync::{Arc, Mutex};
use std::task::{Context, Poll};
use tokio::io::{AsyncRead, ReadBuf};

// ------------------------------------------------------------------ transport

#[derive(Clone, Debug, Serialize, Deserialize, PartialEq)]
pub struct Seg {
    pub len: usize,
    /// simulated delay before the segment arrives (stall)
    #[serde(default)]
    pub delay_ns: u64,
    /// wake the reader once, with nothing to read, while it waits
    #[serde(default)]
    pub spurious: bool,
    /// short reads: at most this many bytes per read call (0 = no limit)
    #[serde(default)]
    pub read_cap: usize,
    /// transport-level events that carry no byte of the stream, placed around
    /// this chunk (websocket arm: 1 = a ping precedes the message, 2 = an
    /// unsolicited pong precedes it, 3 = the message travels as two fragments,
    /// 4 = an empty binary message precedes it, 5 = two fragments with a ping
    /// in between; UDP arm: 4 = an empty datagram precedes this one)
    #[serde(default)]
    pub ctl: u8,
    /// transient read error: 1 = one read call fails with ErrorKind::Interrupted
    /// before this chunk arrives; the connection itself goes on (a reader may
    /// give up there or try again - it must not hand on anything wrong)
    #[serde(default)]
    pub err: u8,
}

#[derive(Clone, Debug, Serialize, Deserialize, PartialEq)]
pub enum End {
    /// connection stays open and silent
    Open,
    /// peer closes: read returns Ok(0)
    Eof,
    /// read fails for good: 0 = ConnectionReset, 1 = TimedOut, 2 = ConnectionAborted, 3 = BrokenPipe
    /// (never Interrupted: that kind is transient by definition, see Seg::err)
    Reset(u8),
}

#[derive(Default, Debug)]
pub struct PipeStats {
    pub reads: u64,
    pub bytes: u64,
    pub stalls: u64,
    pub spurious: u64,
    pub big_reads: u64,
    pub ended: bool,
    pub all_delivered: bool,
    pub transient_errors: u64,
}

pub struct SimPipe {
    data: Arc<Vec<u8>>,
    pos: usize,
    segs: Vec<Seg>,
    seg_i: usize,
    seg_left: usize,
    cur_cap: usize,
    ready_at: u64,
    spurious_pending: bool,
    err_pending: bool,
    end: End,
    pub stats: Arc<Mutex<PipeStats>>,
}

impl SimPipe {
    pub fn new(data: Arc<Vec<u8>>, segs: Vec<Seg>, end: End) -> SimPipe {
        SimPipe {
            data,
            pos: 0,
            segs,
            seg_i: 0,
            seg_left: 0,
            cur_cap: 0,
            ready_at: 0,
            spurious_pending: false,
            err_pending: false,
            end,
            stats: Arc::new(Mutex::new(PipeStats::default())),
        }
    }
}

impl AsyncRead for SimPipe {
    fn poll_read(
        mut self: Pin<&mut Self>,
        cx: &mut Context<'_>,
        buf: &mut ReadBuf<'_>,
    ) -> Poll<std::io::Result<()>> {
        let this = &mut *self;
        if this.seg_left == 0 {
            // skip empty segments, start the next one
            while this.seg_i < this.segs.len() && this.segs[this.seg_i].len == 0 {
                this.seg_i += 1;
            }
            if this.seg_i >= this.segs.len() || this.pos >= this.data.len() {
                let mut st = this.stats.lock().unwrap();
                st.all_delivered = true;
                return match this.end {
                    End::Open => Poll::Pending, // silent connection: never woken again
                    End::Eof => {
                        st.ended = true;
                        exec::log_u64(0xE0F);
                        Poll::Ready(Ok(()))
                    }
                    End::Reset(k) => {
                        st.ended = true;
                        exec::log_u64(0xE55 + k as u64);
                        let kind = match k {
                            0 => std::io::ErrorKind::ConnectionReset,
                            1 => std::io::ErrorKind::TimedOut,
                            2 => std::io::ErrorKind::ConnectionAborted,
                            _ => std::io::ErrorKind::BrokenPipe,
                        };
                        Poll::Ready(Err(std::io::Error::new(kind, "simulated")))
                    }
                };
            }
            let seg = this.segs[this.seg_i].clone();
            this.seg_i += 1;
            this.seg_left = seg.len.min(this.data.len() - this.pos);
            this.cur_cap = seg.read_cap;
            this.ready_at = exec::now_ns() + seg.delay_ns;
            this.spurious_pending = seg.spurious;
            this.err_pending = seg.err == 1;
            if seg.delay_ns > 0 {
                this.stats.lock().unwrap().stalls += 1;
            }
        }
        if this.err_pending {
            // this read call fails; the next one finds the connection as it was
            this.err_pending = false;
            this.stats.lock().unwrap().transient_errors += 1;
            exec::log_u64(0xE177);
            return Poll::Ready(Err(std::io::Error::new(std::io::ErrorKind::Interrupted, "simulated: interrupted")));
        }
        if exec::now_ns() < this.ready_at {
            if this.spurious_pending {
                this.spurious_pending = false;
                this.stats.lock().unwrap().spurious += 1;
                let mid = exec::now_ns() + (this.ready_at - exec::now_ns()) / 2;
                exec::wake_at(mid, cx.waker().clone());
            }
            exec::wake_at(this.ready_at, cx.waker().clone());
            return Poll::Pending;
        }
        let mut n = this.seg_left.min(buf.remaining());
        if this.cur_cap > 0 {
            n = n.min(this.cur_cap);
        }
        buf.put_slice(&this.data[this.pos..this.pos + n]);
        this.pos += n;
        this.seg_left -= n;
        {
            let mut st = this.stats.lock().unwrap();
            st.reads += 1;
            st.bytes += n as u64;
            if n >= 1024 {
                st.big_reads += 1;
            }
        }
        exec::log_u64(0xD000_0000 | n as u64);
        Poll::Ready(Ok(()))
    }
}

// ------------------------------------------------------------------ datagrams (UDP arm)

/// One segment = one datagram, handed over whole (the socket layer cuts it to
/// the caller's buffer). A socket has no end of stream: after the last
/// datagram it stays silent, or fails when the plan says so.
pub struct SimDatagrams {
    data: Arc<Vec<u8>>,
    pos: usize,
    segs: Vec<Seg>,
    seg_i: usize,
    ready_at: Option<u64>,
    empty_sent: bool,
    err_sent: bool,
    end: End,
    pub stats: Arc<Mutex<PipeStats>>,
}

impl futures_util::stream::Stream for SimDatagrams {
    type Item = std::io::Result<Vec<u8>>;
    fn poll_next(mut self: Pin<&mut Self>, cx: &mut Context<'_>) -> Poll<Option<Self::Item>> {
        let this = &mut *self;
        while this.seg_i < this.segs.len() && this.segs[this.seg_i].len == 0 {
            this.seg_i += 1;
        }
        if this.seg_i >= this.segs.len() || this.pos >= this.data.len() {
            let mut st = this.stats.lock().unwrap();
            st.all_delivered = true;
            return match this.end {
                End::Open | End::Eof => Poll::Pending,
                End::Reset(k) => {
                    st.ended = true;
                    exec::log_u64(0xE55 + k as u64);
                    Poll::Ready(Some(Err(std::io::Error::new(std::io::ErrorKind::ConnectionReset, "simulated"))))
                }
            };
        }
        let seg = this.segs[this.seg_i].clone();
        let at = *this.ready_at.get_or_insert(exec::now_ns() + seg.delay_ns);
        if exec::now_ns() < at {
            exec::wake_at(at, cx.waker().clone());
            return Poll::Pending;
        }
        if seg.err == 1 && !this.err_sent {
            // one receive call fails; the socket is as it was
            this.err_sent = true;
            this.stats.lock().unwrap().transient_errors += 1;
            exec::log_u64(0xE177);
            return Poll::Ready(Some(Err(std::io::Error::new(std::io::ErrorKind::Interrupted, "simulated: interrupted"))));
        }
        if seg.ctl == 4 && !this.empty_sent {
            // a datagram without payload comes first
            this.empty_sent = true;
            exec::log_u64(0xDA00_0000);
            return Poll::Ready(Some(Ok(Vec::new())));
        }
        this.empty_sent = false;
        this.err_sent = false;
        this.ready_at = None;
        this.seg_i += 1;
        let n = seg.len.min(this.data.len() - this.pos);
        let d = this.data[this.pos..this.pos + n].to_vec();
        this.pos += n;
        {
            let mut st = this.stats.lock().unwrap();
            st.reads += 1;
            st.bytes += n as u64;
            if seg.delay_ns > 0 {
                st.stalls += 1;
            }
        }
        exec::log_u64(0xDA00_0000 | n as u64);
        Poll::Ready(Some(Ok(d)))
    }
}

/// The server side of a websocket connection after the handshake: every
/// segment becomes one unmasked binary message (FIN set); the byte stream is
/// delivered message by message with the segment's delay and read cap.
fn websocket_wire(data: &[u8], segs: &[Seg]) -> (Vec<u8>, Vec<Seg>) {
    fn frame(wire: &mut Vec<u8>, first_byte: u8, payload: &[u8]) {
        let n = payload.len();
        wire.push(first_byte);
        if n < 126 {
            wire.push(n as u8);
        } else if n < 65536 {
            wire.push(126);
            wire.extend_from_slice(&(n as u16).to_be_bytes());
        } else {
            wire.push(127);
            wire.extend_from_slice(&(n as u64).to_be_bytes());
        }
        wire.extend_from_slice(payload);
    }
    // a control payload that would read as the start of a Beast frame if it
    // ever found its way into the reassembly buffer
    const CTL_PAYLOAD: [u8; 3] = [0x1a, 0x33, 0x1a];
    let mut wire = Vec::new();
    let mut out = Vec::new();
    let mut pos = 0usize;
    for s in segs {
        let n = s.len.min(data.len() - pos);
        if n == 0 {
            continue;
        }
        let start = wire.len();
        let msg = &data[pos..pos + n];
        match s.ctl {
            1 => frame(&mut wire, 0x89, &CTL_PAYLOAD),
            2 => frame(&mut wire, 0x8a, &CTL_PAYLOAD),
            4 => frame(&mut wire, 0x82, &[]),
            _ => {}
        }
        if (s.ctl == 3 || s.ctl == 5) && n >= 2 {
            // binary, FIN clear; [ping]; continuation, FIN set
            frame(&mut wire, 0x02, &msg[..n / 2]);
            if s.ctl == 5 {
                frame(&mut wire, 0x89, &CTL_PAYLOAD);
            }
            frame(&mut wire, 0x80, &msg[n / 2..]);
        } else {
            frame(&mut wire, 0x82, msg);
        }
        pos += n;
        out.push(Seg { len: wire.len() - start, delay_ns: s.delay_ns, spurious: s.spurious, read_cap: s.read_cap, ctl: 0, err: 0 });
    }
    (wire, out)
}

const SIM_ADDR: &str = "sim.invalid:30005";

/// The data source the plan asks for, obtained the way `beast::receiver`
/// obtains it (connect / bind / connect_async on the simulated network)
async fn open_source(transport: u8, wire: Arc<Vec<u8>>, segs: Vec<Seg>, end: End, stats_out: Rc<RefCell<Option<Arc<Mutex<PipeStats>>>>>) -> DataSource {
    use rs1090::source::verif_net::{self, Peer};
    match transport {
        1 => {
            let pipe = SimPipe::new(wire, segs, end);
            *stats_out.borrow_mut() = Some(pipe.stats.clone());
            verif_net::register(SIM_ADDR, Peer::Tcp(Box::pin(pipe)));
            DataSource::Tcp(verif_net::TcpStream::connect(SIM_ADDR).await.expect("simulated connect"))
        }
        2 => {
            let stats = Arc::new(Mutex::new(PipeStats::default()));
            *stats_out.borrow_mut() = Some(stats.clone());
            let d = SimDatagrams { data: wire, pos: 0, segs, seg_i: 0, ready_at: None, empty_sent: false, err_sent: false, end, stats };
            verif_net::register(SIM_ADDR, Peer::Udp(Box::pin(d)));
            DataSource::Udp(verif_net::UdpSocket::bind(SIM_ADDR).await.expect("simulated bind"))
        }
        3 => {
            let (w, s) = websocket_wire(&wire, &segs);
            let pipe = SimPipe::new(Arc::new(w), s, end);
            *stats_out.borrow_mut() = Some(pipe.stats.clone());
            let url = format!("ws://{}/beast", SIM_ADDR);
            verif_net::register(&url, Peer::Websocket(Box::pin(pipe)));
            let (ws, _) = verif_net::connect_async(&url).await.expect("simulated websocket");
            let (_, rx) = ws.split();
            DataSource::Websocket(rx)
        }
        _ => {
            let pipe = SimPipe::new(wire, segs, end);
            *stats_out.borrow_mut() = Some(pipe.stats.clone());
            DataSource::Verif(Box::pin(pipe))
        }
    }
}

/// One chunk = one datagram, of at most `max` bytes (what the sender's path
/// carries: 1472 on Ethernet, 8972 with jumbo frames, 65507 at most); a
/// longer chunk travels as several datagrams.
fn datagram_sized(segs: &[Seg], max: usize) -> Vec<Seg> {
    let max = max.max(1);
    let mut out = Vec::new();
    for s in segs {
        let mut left = s.len;
        let mut first = true;
        while left > 0 {
            let n = left.min(max);
            out.push(Seg { len: n, delay_ns: if first { s.delay_ns } else { 0 }, spurious: false, read_cap: 0, ctl: if first { s.ctl } else { 0 }, err: if first { s.err } else { 0 } });
            first = false;
            left -= n;
        }
    }
    out
}

// ------------------------------------------------------------------ plan

#[derive(Clone, Debug, Serialize, Deserialize, PartialEq)]
pub enum Mode {
    /// every single cut point, every pair of cut points, EOF and reset at
    /// every offset
    Sweep { double: bool, ends: bool },
    /// seeded chunkings: `n` random multi-cut / dribble / big-segment plans
    /// derived from `seed`
    Random { n: u32, seed: u64 },
    /// exactly this chunking
    Explicit { segs: Vec<Seg>, end: End },
}

#[derive(Clone, Debug, Serialize, Deserialize)]
pub struct C09Plan {
    /// un-escaped frames (hex): 1a, type (31/32/33), 6 timestamp bytes,
    /// signal byte, payload (2/7/14 bytes)
    pub frames: Vec<String>,
    /// append two further long frames so that nothing of the sequence under
    /// test remains inside the look-ahead
    pub flush: bool,
    pub mode: Mode,
    pub sched: SchedSpec,
    /// which arm of next_msg reads the bytes: 0 = DataSource::Verif (hook H2),
    /// 1 = the TCP arm, 2 = the UDP arm (one segment = one datagram), 3 = the
    /// websocket arm (one segment = one binary message); 1-3 through the
    /// simulated sockets of hook H8
    #[serde(default)]
    pub transport: u8,
    /// UDP arm: the largest datagram the sender's path carries
    #[serde(default = "default_dgram_max")]
    pub dgram_max: usize,
    /// Sweep mode on the websocket / UDP arm: the transport-level event
    /// (`Seg::ctl`) placed in front of the last chunk of every delivery
    #[serde(default)]
    pub sweep_ctl: u8,
}

fn default_dgram_max() -> usize {
    1024
}

pub struct C09;

fn segs_of(p: &mut C09Plan) -> &mut [Seg] {
    match &mut p.mode {
        Mode::Explicit { segs, .. } => segs,
        _ => &mut [],
    }
}

fn frame_len(ty: u8) -> usize {
    match ty {
        0x31 => 11,
        0x32 => 16,
        _ => 23,
    }
}

/// wire form: every 0x1a after the first is doubled
pub fn escape(frame: &[u8]) -> Vec<u8> {
    let mut w = Vec::with_capacity(frame.len() + 4);
    w.push(frame[0]);
    for &b in &frame[1..] {
        w.push(b);
        if b == 0x1a {
            w.push(0x1a);
        }
    }
    w
}

fn gen_frame(rng: &mut Rng, density: f64, style: u8) -> Vec<u8> {
    // type 4 (status) frames travel in the same stream; they are not handed on
    let ty = *rng.pick(&[0x31u8, 0x32, 0x33, 0x33, 0x33, 0x33, 0x32, 0x31, 0x33, 0x33, 0x34]);
    let n = frame_len(ty);
    let mut f = vec![0u8; n];
    f[0] = 0x1a;
    f[1] = ty;
    for i in 2..n {
        f[i] = if rng.chance(density) {
            0x1a
        } else {
            let b = rng.byte();
            if b == 0x1a {
                0x1b
            } else {
                b
            }
        };
    }
    match style {
        1 => {
            // a run of 2..6 consecutive 0x1a somewhere
            let l = rng.usize(2, 6.min(n - 2));
            let s = rng.usize(2, n - l);
            for i in s..s + l {
                f[i] = 0x1a;
            }
        }
        2 => f[n - 1] = 0x1a, // last payload byte
        3 => f[9.min(n - 1)] = 0x1a, // first payload byte
        4 => f[8] = 0x1a,     // signal byte
        5 => {
            f[2] = 0x1a; // first / last timestamp byte
            f[7] = 0x1a;
        }
        6 => {
            // look-alike: 1a 3x inside the payload
            let s = rng.usize(2, n - 2);
            f[s] = 0x1a;
            f[s + 1] = *rng.pick(&[0x31u8, 0x32, 0x33, 0x34]);
        }
        8 => {
            // everything after the type byte is zero (a heartbeat look-alike)
            for b in f.iter_mut().skip(2) {
                *b = 0;
            }
        }
        9 => {
            for b in f.iter_mut().skip(2) {
                *b = 0xff;
            }
        }
        10 => {
            // a genuine timestamp and signal level, an all-zero payload (Mode A code 0000, ...)
            for b in f.iter_mut().skip(9) {
                *b = 0;
            }
        }
        11 => {
            // timestamp with a remarkable prefix
            let p = *rng.pick(&[[0xffu8, 0x00], [0x00, 0x00], [0xff, 0xff], [0x00, 0xff]]);
            f[2] = p[0];
            f[3] = p[1];
        }
        7 => {
            // two runs
            for _ in 0..2 {
                let s = rng.usize(2, n - 2);
                f[s] = 0x1a;
                f[s + 1] = 0x1a;
            }
        }
        _ => {}
    }
    f
}

const FLUSH_FRAME: [u8; 23] = [
    0x1a, 0x33, 0, 0, 0, 0, 0, 1, 0x40, 0x8d, 0x40, 0x6b, 0x90, 0x20, 0x15, 0xa6, 0x78, 0xd4, 0xd2, 0x20,
    0xaa, 0x4b, 0xda,
];

struct Stream {
    /// expected items, un-escaped, in order (sequence under test, then the
    /// flush frames if any)
    expected: Vec<Vec<u8>>,
    n_under_test: usize,
    wire: Arc<Vec<u8>>,
    /// wire offsets [start, end) of every frame that is to be yielded
    spans: Vec<(usize, usize)>,
    /// wire offsets of every frame on the wire (status frames included)
    all_spans: Vec<(usize, usize)>,
}

fn build_stream(plan: &C09Plan) -> Stream {
    let mut on_wire: Vec<Vec<u8>> = plan.frames.iter().map(|h| unhex(h)).collect();
    if plan.flush {
        on_wire.push(FLUSH_FRAME.to_vec());
        on_wire.push(FLUSH_FRAME.to_vec());
    }
    let mut expected: Vec<Vec<u8>> = Vec::new();
    let mut n_under_test = 0;
    let mut wire = Vec::new();
    let mut spans = Vec::new();
    let mut all_spans = Vec::new();
    for (i, f) in on_wire.iter().enumerate() {
        let s = wire.len();
        wire.extend_from_slice(&escape(f));
        all_spans.push((s, wire.len()));
        // status frames (type 4) are consumed by the reader, never yielded
        if f.get(1) != Some(&0x34) {
            expected.push(f.clone());
            spans.push((s, wire.len()));
            if i < plan.frames.len() {
                n_under_test += 1;
            }
        }
    }
    Stream {
        expected,
        n_under_test,
        wire: Arc::new(wire),
        spans,
        all_spans,
    }
}

struct ExecResult {
    items: Vec<Vec<u8>>,
    stream_ended: bool,
    panics: Vec<exec::PanicRec>,
    end: RunEnd,
    steps: u64,
    sim_ns: u64,
    stats: PipeStats,
    log: u64,
}

fn run_once(transport: u8, dgram_max: usize, wire: &Arc<Vec<u8>>, segs: &[Seg], end: &End, sched: &SchedSpec) -> ExecResult {
    let mut sim = Sim::new(sched);
    rs1090::source::verif_net::clear();
    let segs: Vec<Seg> = if transport == 2 { datagram_sized(segs, dgram_max) } else { segs.to_vec() };
    let stats_slot: Rc<RefCell<Option<Arc<Mutex<PipeStats>>>>> = Rc::new(RefCell::new(None));
    let nsegs = segs.len();
    let items: Rc<RefCell<Vec<Vec<u8>>>> = Rc::new(RefCell::new(Vec::new()));
    let ended = Rc::new(RefCell::new(false));
    {
        let items = items.clone();
        let ended = ended.clone();
        let (wire, end, slot) = (wire.clone(), end.clone(), stats_slot.clone());
        sim.spawn("beast::next_msg(real)+consumer", async move {
            let s = next_msg(open_source(transport, wire, segs, end, slot).await).await;
            pin_mut!(s);
            while let Some(m) = s.next().await {
                exec::log_bytes(&m);
                items.borrow_mut().push(m);
            }
            *ended.borrow_mut() = true;
        });
    }
    let cap = 200 + 8 * wire.len() as u64 + 8 * nsegs as u64;
    let endr = sim.run(cap, |_, _, _| true);
    let st = match stats_slot.borrow().as_ref() {
        Some(s) => std::mem::take(&mut *s.lock().unwrap()),
        None => PipeStats::default(),
    };
    let r = ExecResult {
        items: items.borrow().clone(),
        stream_ended: *ended.borrow(),
        panics: sim.panics.clone(),
        end: endr,
        steps: sim.steps,
        sim_ns: exec::now_ns(),
        stats: st,
        log: exec::log_hash(),
    };
    r
}

fn first_diff(a: &[u8], b: &[u8]) -> String {
    let n = a.len().min(b.len());
    for i in 0..n {
        if a[i] != b[i] {
            return format!("byte {} is {:02x}, expected {:02x}", i, a[i], b[i]);
        }
    }
    format!("length {} instead of {}", a.len(), b.len())
}

/// Oracle for one execution. `k` = number of wire bytes actually offered
/// before the terminal fault (= whole stream when the connection stays open).
fn judge(st: &Stream, r: &ExecResult, reference: Option<&Vec<Vec<u8>>>, k: usize, end: &End) -> Option<Violation> {
    for p in &r.panics {
        if p.file.contains("/verif/") || p.env_limit() {
            continue;
        }
        return Some(Violation::new(
            "c09.5-panic",
            p.short_loc(),
            format!("the stream task panicked at {}:{}: {}", p.file, p.line, p.msg),
        ));
    }
    if r.end == RunEnd::StepCap {
        return Some(Violation::new("c09.liveness", "step-cap", "the reader did not become idle within the step cap".to_string()));
    }
    // clause 1: O is a prefix of E, byte for byte
    for (i, it) in r.items.iter().enumerate() {
        match st.expected.get(i) {
            None => {
                return Some(Violation::new(
                    "c09.1-prefix",
                    "extra-item",
                    format!("item #{} = {} was yielded but the sequence has only {} frames", i, hex(it), st.expected.len()),
                ))
            }
            Some(e) if e != it => {
                return Some(Violation::new(
                    "c09.1-prefix",
                    "item-differs",
                    format!("item #{} = {} differs from frame #{} = {}: {}", i, hex(it), i, hex(e), first_diff(it, e)),
                ))
            }
            _ => {}
        }
    }
    // clause 2 / 4: bounded pending among the frames completely offered
    let complete = st.spans.iter().take_while(|(_, e)| *e <= k).count();
    let got = r.items.len();
    if got < complete {
        let pending: usize = st.expected[got..complete].iter().map(|f| f.len()).sum();
        if pending >= 23 {
            return Some(Violation::new(
                "c09.2-pending",
                if *end == End::Open { "after-all-bytes" } else { "at-close" },
                format!(
                    "{} complete frames were offered, only {} yielded; the {} pending frames are {} un-escaped bytes (look-ahead is 23)",
                    complete,
                    got,
                    complete - got,
                    pending
                ),
            ));
        }
        if *end == End::Open && got < st.n_under_test && st.expected.len() > st.n_under_test {
            return Some(Violation::new(
                "c09.2-pending",
                "not-flushed",
                format!("two further long frames followed, yet only {} of the {} frames under test were yielded", got, st.n_under_test),
            ));
        }
    }
    // clause 3: same as when delivered in one piece
    if let (Some(refitems), End::Open) = (reference, end) {
        if *refitems != r.items {
            return Some(Violation::new(
                "c09.3-chunking",
                "differs-from-one-piece",
                format!("{} items with this chunking, {} items when the same bytes arrive in one piece", r.items.len(), refitems.len()),
            ));
        }
    }
    if *end != End::Open && !r.stream_ended && r.panics.is_empty() {
        return Some(Violation::new("c09.liveness", "not-ended-after-close", "the stream did not end after the peer closed".to_string()));
    }
    None
}

/// Sweep deliveries on the websocket / UDP arm: the plan's transport-level
/// event goes in front of the last chunk
fn with_ctl(mut segs: Vec<Seg>, plan: &C09Plan) -> Vec<Seg> {
    if plan.sweep_ctl != 0 && (plan.transport == 2 || plan.transport == 3) {
        if let Some(s) = segs.last_mut() {
            s.ctl = plan.sweep_ctl;
        }
    }
    segs
}

fn segs_from_cuts(total: usize, cuts: &[usize]) -> Vec<Seg> {
    let mut segs = Vec::new();
    let mut prev = 0;
    for &c in cuts {
        if c > prev && c < total {
            segs.push(Seg { len: c - prev, delay_ns: 0, spurious: false, read_cap: 0, ctl: 0, err: 0 });
            prev = c;
        }
    }
    if total > prev {
        segs.push(Seg { len: total - prev, delay_ns: 0, spurious: false, read_cap: 0, ctl: 0, err: 0 });
    }
    segs
}

fn random_segs(rng: &mut Rng, total: usize) -> Vec<Seg> {
    let style = rng.below(7);
    let mut segs = Vec::new();
    let mut left = total;
    if style == 6 {
        // reads that fill the reader's 1024-byte buffer exactly; the odd
        // remainder comes first, so that the last read is a full one
        let first = total % 1024;
        if first > 0 {
            segs.push(Seg { len: first, delay_ns: 0, spurious: false, read_cap: 0, ctl: 0, err: 0 });
        }
        for _ in 0..total / 1024 {
            segs.push(Seg { len: 1024, delay_ns: if rng.chance(0.3) { 1_000_000 } else { 0 }, spurious: false, read_cap: 0, ctl: 0, err: 0 });
        }
        return segs;
    }
    while left > 0 {
        let len = match style {
            0 => 1,                                     // dribble
            1 => rng.usize(1, 4),
            2 => rng.usize(1, 30),
            3 => rng.usize(1, 2100),                    // includes >= 1024
            4 => *rng.pick(&[22usize, 23, 24, 25, 46, 47]),
            _ => rng.usize(1, 200),
        }
        .min(left);
        let delay_ns = if rng.chance(0.3) {
            *rng.pick(&[1u64, 1_000, 1_000_000, 250_000_000, 60_000_000_000, 600_000_000_000, 1_200_000_000_000, 10_800_000_000_000, 90_000_000_000_000])
        } else {
            0
        };
        segs.push(Seg {
            len,
            delay_ns,
            spurious: delay_ns > 0 && rng.chance(0.4),
            read_cap: if rng.chance(0.1) { rng.usize(1, 40) } else { 0 },
            ctl: 0,
            err: 0,
        });
        left -= len;
    }
    segs
}

struct Tally {
    evals: u64,
    sigs: Vec<u64>,
    nontrivial: Vec<u64>,
    sim_ns: u64,
    steps: u64,
    counters: Vec<(&'static str, u64)>,
    log: Fnv,
}
impl Tally {
    fn count(&mut self, k: &'static str, n: u64) {
        if n == 0 {
            return;
        }
        for c in self.counters.iter_mut() {
            if c.0 == k {
                c.1 += n;
                return;
            }
        }
        self.counters.push((k, n));
    }
}

fn classify_cuts(st: &Stream, segs: &[Seg], t: &mut Tally) -> bool {
    // where do the segment boundaries fall?
    let w = &st.wire;
    let mut inside = false;
    let mut pos = 0usize;
    for s in &segs[..segs.len().saturating_sub(1)] {
        pos += s.len;
        if pos == 0 || pos >= w.len() {
            continue;
        }
        // frame containing the boundary
        if let Some((fs, fe)) = st.spans.iter().find(|(a, b)| *a < pos && pos < *b) {
            inside = true;
            t.count("cut", 1);
            if pos == fs + 1 {
                t.count("cut_between_1a_and_type", 1);
            }
            // inside an escape pair: w[pos-1] == 1a and w[pos] == 1a and they pair up
            if w[pos - 1] == 0x1a && w[pos] == 0x1a && pos > fs + 1 {
                // parity of the run of 1a ending at pos-1 (within the frame body)
                let mut run = 0;
                let mut i = pos;
                while i > fs + 2 && w[i - 1] == 0x1a {
                    run += 1;
                    i -= 1;
                }
                if run % 2 == 1 {
                    t.count("cut_inside_escape_pair", 1);
                }
            }
            if pos - fs >= 23 && pos < *fe {
                t.count("incomplete_frame_with_23_bytes_buffered", 1);
            }
        } else {
            t.count("cut_at_frame_boundary", 1);
        }
    }
    for s in segs {
        if s.len == 1 {
            t.count("dribble", 1);
        }
        if s.len >= 1024 {
            t.count("big", 1);
        }
        if s.delay_ns > 0 {
            t.count("stall", 1);
        }
        if s.spurious {
            t.count("spurious_wake", 1);
        }
        if s.read_cap > 0 {
            t.count("short_read", 1);
        }
    }
    inside
}

fn one(
    st: &Stream,
    plan: &C09Plan,
    segs: Vec<Seg>,
    end: End,
    reference: &Vec<Vec<u8>>,
    t: &mut Tally,
) -> Option<(Violation, C09Plan)> {
    if plan.transport == 2 && end == End::Eof {
        // a UDP socket has no end of stream
        return None;
    }
    let k: usize = segs.iter().map(|s| s.len).sum::<usize>().min(st.wire.len());
    let r = run_once(plan.transport, plan.dgram_max, &st.wire, &segs, &end, &plan.sched);
    t.count(match plan.transport { 1 => "arm_tcp", 2 => "arm_udp", 3 => "arm_websocket", _ => "arm_verif" }, 1);
    t.evals += 1;
    t.sim_ns += r.sim_ns;
    t.steps += r.steps;
    t.log.u64(r.log);
    let inside = classify_cuts(st, &segs, t);
    if plan.transport == 3 {
        for s in &segs {
            t.count(match s.ctl { 1 => "ws_ping", 2 => "ws_pong", 3 => "ws_fragmented", 4 => "empty_message", 5 => "ws_ping_between_fragments", _ => continue }, 1);
        }
    }
    if plan.transport == 2 {
        t.count("empty_message", segs.iter().filter(|s| s.ctl == 4).count() as u64);
        let big = segs.iter().filter(|s| s.len.min(plan.dgram_max) > 1024).count() as u64;
        t.count("udp_datagram_gt_1024", big);
    }
    match end {
        End::Eof => t.count("eof", 1),
        End::Reset(_) => t.count("reset", 1),
        End::Open => {}
    }
    let mut sig = Fnv::new();
    sig.bytes(&st.wire);
    sig.u64(plan.transport as u64);
    for s in &segs {
        sig.u64(s.len as u64);
        sig.u64(s.delay_ns);
        sig.u64(s.read_cap as u64 * 2 + s.spurious as u64);
        sig.u64(s.ctl as u64 | (s.err as u64) << 8);
    }
    sig.u64(plan.dgram_max as u64);
    sig.u64(match end {
        End::Open => 0,
        End::Eof => 1,
        End::Reset(k) => 2 + k as u64,
    });
    t.sigs.push(sig.0);
    let faulty = inside || end != End::Open || segs.iter().any(|s| s.delay_ns > 0 || s.read_cap > 0 || s.ctl > 0 || s.err > 0);
    if faulty && !r.items.is_empty() {
        t.nontrivial.push(sig.0);
    }
    if r.stats.big_reads > 0 {
        t.count("read_ge_1024", r.stats.big_reads);
    }
    if r.stats.transient_errors > 0 {
        t.count("transient_read_error", r.stats.transient_errors);
        t.count(if r.stream_ended { "reader_gave_up_at_transient_error" } else { "reader_went_on_after_transient_error" }, 1);
    }
    // A reader may give up at a transient read error (today's code) or try
    // again: when it gave up, the run is judged like a connection that failed
    // after the bytes it had been given; when it went on, like any other
    // delivery (complete, and equal to the one-piece result).
    let (k_eff, end_eff) = if r.stats.transient_errors > 0 && r.stream_ended {
        (k.min(r.stats.bytes as usize), if end == End::Open { End::Reset(9) } else { end.clone() })
    } else {
        (k, end.clone())
    };
    judge(st, &r, Some(reference), k_eff, &end_eff).map(|v| {
        let mut p = plan.clone();
        p.mode = Mode::Explicit { segs, end };
        (v, p)
    })
}

pub fn execute(plan: &C09Plan) -> Outcome<C09Plan> {
    let mut out = Outcome::new();
    out.sched_policy = plan.sched.policy_name();
    let st = build_stream(plan);
    let total = st.wire.len();
    let mut t = Tally {
        evals: 0,
        sigs: Vec::new(),
        nontrivial: Vec::new(),
        sim_ns: 0,
        steps: 0,
        counters: Vec::new(),
        log: Fnv::new(),
    };
    // reference execution: the whole stream in one piece (real code, not a model)
    let whole = vec![Seg { len: total, delay_ns: 0, spurious: false, read_cap: 0, ctl: 0, err: 0 }];
    let refr = run_once(plan.transport, plan.dgram_max, &st.wire, &whole, &End::Open, &SchedSpec::fifo());
    t.evals += 1;
    let mut found: Option<(Violation, C09Plan)> = None;
    if let Some(v) = judge(&st, &refr, None, total, &End::Open) {
        let mut p = plan.clone();
        p.mode = Mode::Explicit { segs: whole.clone(), end: End::Open };
        found = Some((v, p));
    }
    let reference = refr.items.clone();
    if found.is_none() {
        match &plan.mode {
            Mode::Explicit { segs, end } => {
                found = one(&st, plan, segs.clone(), end.clone(), &reference, &mut t);
            }
            Mode::Sweep { double, ends } => {
                'sweep: {
                    for c in 1..total {
                        if let Some(f) = one(&st, plan, with_ctl(segs_from_cuts(total, &[c]), plan), End::Open, &reference, &mut t) {
                            found = Some(f);
                            break 'sweep;
                        }
                    }
                    if *double {
                        for c1 in 1..total {
                            for c2 in c1 + 1..total {
                                if let Some(f) = one(&st, plan, with_ctl(segs_from_cuts(total, &[c1, c2]), plan), End::Open, &reference, &mut t) {
                                    found = Some(f);
                                    break 'sweep;
                                }
                            }
                        }
                    }
                    if *ends && plan.transport != 3 {
                        // a transient read error at every offset (also before the first byte)
                        for c in 0..total {
                            let mut segs = if c == 0 { segs_from_cuts(total, &[]) } else { segs_from_cuts(total, &[c]) };
                            if let Some(s) = segs.last_mut() {
                                s.err = 1;
                            }
                            if let Some(f) = one(&st, plan, segs, End::Open, &reference, &mut t) {
                                found = Some(f);
                                break 'sweep;
                            }
                        }
                    }
                    if *ends {
                        for k in 0..=total {
                            for (e, cutmid) in [(End::Eof, false), (End::Reset(0), false), (End::Eof, true)] {
                                let mut segs = if cutmid && k >= 2 {
                                    segs_from_cuts(k, &[k / 2])
                                } else {
                                    segs_from_cuts(k, &[])
                                };
                                if k == 0 {
                                    segs.clear();
                                }
                                if let Some(f) = one(&st, plan, with_ctl(segs, plan), e, &reference, &mut t) {
                                    found = Some(f);
                                    break 'sweep;
                                }
                            }
                        }
                    }
                }
            }
            Mode::Random { n, seed } => {
                let mut rng = Rng::new(*seed);
                for _ in 0..*n {
                    let mut segs = random_segs(&mut rng, total);
                    if plan.transport == 3 {
                        for s in segs.iter_mut() {
                            if rng.chance(0.15) {
                                s.ctl = rng.usize(1, 5) as u8;
                            }
                        }
                    } else if plan.transport == 2 {
                        for s in segs.iter_mut() {
                            if rng.chance(0.1) {
                                s.ctl = 4;
                            }
                        }
                    }
                    if plan.transport != 3 && rng.chance(0.2) {
                        // one read call that fails with Interrupted, the connection goes on
                        let n = segs.len();
                        if n > 0 {
                            segs[rng.usize(0, n - 1)].err = 1;
                        }
                    }
                    let end = match rng.below(10) {
                        0 => End::Eof,
                        1 => End::Reset(rng.below(4) as u8),
                        _ => End::Open,
                    };
                    if end != End::Open {
                        // terminal fault after a prefix of the segments
                        let keep = rng.usize(0, segs.len());
                        segs.truncate(keep);
                    }
                    if let Some(f) = one(&st, plan, segs, end, &reference, &mut t) {
                        found = Some(f);
                        break;
                    }
                }
            }
        }
    }
    // content probes of the stream itself
    {
        let w = &st.wire;
        let mut runs = 0;
        let mut i = 0;
        while i + 3 < w.len() {
            if w[i] == 0x1a && w[i + 1] == 0x1a && w[i + 2] == 0x1a && w[i + 3] == 0x1a {
                runs += 1;
                i += 4;
            } else {
                i += 1;
            }
        }
        t.count("stream_with_literal_1a_run", (runs > 0) as u64);
        if plan.flush {
            t.count("flush_mode", 1);
        }
    }
    out.evaluations = t.evals;
    out.sigs = t.sigs;
    out.nontrivial_sigs = t.nontrivial;
    out.sim_ns = t.sim_ns;
    out.steps = t.steps;
    out.counters = t.counters;
    out.log_hash = {
        let mut f = t.log;
        f.u64(found.is_some() as u64);
        f.0
    };
    {
        let mut f = Fnv::new();
        f.u64(reference.len() as u64);
        f.u64(st.expected.len() as u64);
        out.oracle_states.push(f.0);
    }
    if let Some((v, p)) = found {
        out.violation = Some(v);
        out.narrowed = Some(p);
    }
    out
}

impl Scenario for C09 {
    type Plan = C09Plan;
    fn id(&self) -> &'static str {
        "C09"
    }
    fn runs(&self, tier: Tier) -> u64 {
        match tier {
            Tier::Quick => 1200,
            Tier::Thorough => 150_000,
        }
    }
    fn generate(&self, rng: &mut Rng, tier: Tier, _idx: u64) -> C09Plan {
        let density = *rng.pick(&[0.0, 0.02, 0.1, 0.1, 0.3, 0.6]);
        let kind = rng.below(10);
        let (nf, mode) = match kind {
            0..=4 => {
                // short stream: exhaustive single + double cuts + ends
                (rng.usize(1, 5), Mode::Sweep { double: true, ends: true })
            }
            5..=7 => {
                let max = if tier == Tier::Thorough { 40 } else { 24 };
                (
                    rng.usize(2, max),
                    Mode::Sweep { double: false, ends: rng.chance(0.3) },
                )
            }
            _ => {
                let max = if tier == Tier::Thorough && rng.chance(0.2) { 200 } else { 40 };
                // a third of these streams is longer than the reader's buffer,
                // a few are thousands of frames long
                let nf = if rng.chance(0.03) { rng.usize(400, 3000) } else if rng.chance(0.33) { rng.usize(45, 90) } else { rng.usize(1, max) };
                let n = if nf >= 400 { 10 } else if tier == Tier::Thorough { 400 } else { 150 };
                (nf, Mode::Random { n, seed: rng.next_u64() })
            }
        };
        let mut frames: Vec<String> = Vec::new();
        for _ in 0..nf {
            // a feed with stuck or zeroed timestamps repeats itself byte for byte
            if !frames.is_empty() && rng.chance(0.08) {
                let prev = frames[frames.len() - 1].clone();
                frames.push(prev);
                continue;
            }
            let style = if rng.chance(0.5) { rng.below(12) as u8 } else { 0 };
            frames.push(hex(&gen_frame(rng, density, style)));
        }
        C09Plan {
            frames,
            flush: rng.chance(0.5),
            mode,
            sched: SchedSpec::generate(rng, 64),
            transport: match rng.below(10) {
                0..=1 => 0,
                2..=5 => 1,
                6..=7 => 2,
                _ => 3,
            },
            dgram_max: *rng.pick(&[1024usize, 1024, 508, 1200, 1472, 1472, 4096, 8972, 65507]),
            sweep_ctl: if rng.chance(0.5) { rng.below(6) as u8 } else { 0 },
        }
    }
    fn execute(&self, plan: &C09Plan) -> Outcome<C09Plan> {
        execute(plan)
    }
    fn shrink(&self, p: &C09Plan) -> Vec<C09Plan> {
        let mut out = Vec::new();
        let Mode::Explicit { segs, end } = &p.mode else {
            return out;
        };
        let st = build_stream(p);
        // current cut offsets (absolute wire positions)
        let mut cuts = Vec::new();
        let mut pos = 0;
        for s in segs {
            pos += s.len;
            cuts.push(pos);
        }
        let offered = pos;
        // 1. drop a frame, keeping the cut offsets relative to the frames that remain
        for i in 0..p.frames.len() {
            if p.frames.len() == 1 {
                break;
            }
            let (fs, fe) = st.all_spans[i];
            let removed = fe - fs;
            let mut q = p.clone();
            q.frames.remove(i);
            let mut ncuts: Vec<usize> = cuts
                .iter()
                .filter(|&&c| !(c > fs && c < fe))
                .map(|&c| if c >= fe { c - removed } else { c })
                .collect();
            ncuts.dedup();
            let ntotal = st.wire.len() - removed;
            let noffered = if offered >= fe { offered - removed } else { offered.min(fs) };
            let mut nsegs = segs_from_cuts(noffered.min(ntotal), &ncuts);
            if noffered == 0 {
                nsegs.clear();
            }
            q.mode = Mode::Explicit { segs: nsegs, end: end.clone() };
            out.push(q);
        }
        if p.flush {
            let mut q = p.clone();
            q.flush = false;
            if let Mode::Explicit { segs, end } = &q.mode {
                let nt: usize = build_stream(&q).wire.len();
                let cs: Vec<usize> = cuts.iter().copied().filter(|c| *c < nt).collect();
                let _ = segs;
                q.mode = Mode::Explicit { segs: segs_from_cuts(offered.min(nt), &cs), end: end.clone() };
            }
            out.push(q);
        }
        // 2. merge neighbouring segments (drop one cut)
        if segs.len() > 1 {
            for i in 0..segs.len() - 1 {
                let mut ns = segs.clone();
                let l = ns[i + 1].len;
                ns[i].len += l;
                ns.remove(i + 1);
                let mut q = p.clone();
                q.mode = Mode::Explicit { segs: ns, end: end.clone() };
                out.push(q);
            }
        }
        // 3. remove delays, wake-ups, read caps
        if segs.iter().any(|s| s.delay_ns > 0 || s.spurious || s.read_cap > 0) {
            let mut ns = segs.clone();
            for s in ns.iter_mut() {
                s.delay_ns = 0;
                s.spurious = false;
                s.read_cap = 0;
            }
            let mut q = p.clone();
            q.mode = Mode::Explicit { segs: ns, end: end.clone() };
            out.push(q);
        }
        if segs.iter().any(|s| s.ctl > 0) {
            let mut ns = segs.clone();
            for s in ns.iter_mut() {
                s.ctl = 0;
            }
            let mut q = p.clone();
            q.mode = Mode::Explicit { segs: ns, end: end.clone() };
            out.push(q);
            for i in 0..segs.len() {
                if segs[i].ctl > 0 {
                    let mut ns = segs.clone();
                    ns[i].ctl = 0;
                    let mut q = p.clone();
                    q.mode = Mode::Explicit { segs: ns, end: end.clone() };
                    out.push(q);
                }
            }
        }
        if p.transport == 2 && p.dgram_max > 1024 {
            let mut q = p.clone();
            q.dgram_max = 1024;
            out.push(q);
        }
        if *end != End::Open && offered >= st.wire.len() {
            let mut q = p.clone();
            q.mode = Mode::Explicit { segs: segs.clone(), end: End::Open };
            out.push(q);
        }
        if p.sched.policy != 3 {
            let mut q = p.clone();
            q.sched = SchedSpec::fifo();
            out.push(q);
        }
        if p.transport != 1 {
            let mut q = p.clone();
            q.transport = 1;
            for s in segs_of(&mut q) {
                s.ctl = 0;
            }
            out.push(q);
        }
        // 4. simplify bytes: replace a non-1a byte (beyond the type byte) by 00
        for (fi, fh) in p.frames.iter().enumerate() {
            let f = unhex(fh);
            for bi in 2..f.len() {
                if f[bi] != 0x1a && f[bi] != 0 {
                    let mut g = f.clone();
                    g[bi] = 0;
                    let mut q = p.clone();
                    q.frames[fi] = hex(&g);
                    out.push(q);
                }
            }
        }
        // 5. replace a 1a by 00 (changes the wire length: re-cut at the same offsets)
        for (fi, fh) in p.frames.iter().enumerate() {
            let f = unhex(fh);
            for bi in 2..f.len() {
                if f[bi] == 0x1a {
                    let mut g = f.clone();
                    g[bi] = 0;
                    let mut q = p.clone();
                    q.frames[fi] = hex(&g);
                    let nt = build_stream(&q).wire.len();
                    let cs: Vec<usize> = cuts.iter().copied().filter(|c| *c < nt).collect();
                    q.mode = Mode::Explicit { segs: segs_from_cuts(offered.min(nt), &cs), end: end.clone() };
                    out.push(q);
                }
            }
        }
        out
    }
    fn meta(&self) -> Meta {
        Meta {
            level: "fault_enumeration",
            rule: "One run = one generated sequence of well-formed Beast frames (types 1/2/3, 0x1a density and placement boosted) and a set of deliveries of its wire bytes through the simulated transport; one evaluation = one delivery (chunking + stalls + terminal fault) executed with the real next_msg under the simulator and compared with the expected frames and with the real code's own output for the one-piece delivery. Sweep runs enumerate EVERY single cut point, EVERY pair of cut points, and EOF / reset at EVERY byte offset of their stream (exhaustive per stream); Random runs draw multi-cut, dribble, >=1024-byte, stalled and short-read deliveries. Distinct = distinct hash of (wire bytes, segment lengths, delays, read caps, terminal fault). Non-trivial = some segment boundary falls strictly inside a frame, or a stall / short read / EOF / reset fired, AND at least one item was yielded and compared.",
            components: vec![
                ("rs1090::source::beast::next_msg (async_stream reassembly state machine)", "real"),
                ("the TCP, UDP and websocket arms of next_msg, obtained through connect / bind / connect_async on the simulated network (hook H8); the copy of the TCP arm behind DataSource::Verif (hook H2)", "real"),
                ("tungstenite's websocket framing between the simulated peer and the websocket arm", "real"),
                ("socket / network", "stub (SimPipe: AsyncRead with exact segment boundaries, delays on the simulated clock, EOF, errors; SimDatagrams: one segment = one datagram of up to 65507 bytes, cut to the caller's buffer as the socket call does, empty datagrams; websocket peer: one segment = one binary message of any size, whole or in two fragments, with pings, unsolicited pongs and empty binary messages in between)"),
                ("consumer of the stream", "stub"),
                ("ssh-tunnelled arms of next_msg (feature ssh)", "not exercised"),
            ],
            assumptions: vec![
                "frames are well-formed as the property states: type byte 0x31/0x32/0x33, every 0x1a after the first doubled",
                "pending frames are measured in un-escaped bytes against the 23-byte look-ahead",
                "UDP: one datagram (up to the 65507 bytes a datagram can carry; the plan's dgram_max models the sender's path) is one chunk of the partition. Websocket: one binary message of any size is one chunk; pings, pongs, fragmentation and empty messages are transport-level events that carry no byte of the stream and leave the partition unchanged; text and close messages are not generated",
            ],
            fault_kinds: vec!["cut", "dribble", "big", "stall", "spurious_wake", "short_read", "eof", "reset", "ws_ping", "ws_pong", "ws_fragmented", "ws_ping_between_fragments", "empty_message", "udp_datagram_gt_1024", "transient_read_error"],
            probes: vec![
                "cut_inside_escape_pair",
                "cut_between_1a_and_type",
                "cut_at_frame_boundary",
                "incomplete_frame_with_23_bytes_buffered",
                "read_ge_1024",
                "stream_with_literal_1a_run",
                "flush_mode",
                "arm_tcp",
                "arm_udp",
                "arm_websocket",
                "arm_verif",
            ],
        }
    }
    fn exhaustive(&self, _tier: Tier) -> bool {
        // the cut / EOF dimension is enumerated completely per Sweep stream;
        // the space of streams is sampled
        false
    }
    fn sample(&self, p: &C09Plan) -> serde_json::Value {
        let mut q = p.clone();
        let n = q.frames.len();
        if n > 6 {
            q.frames.truncate(6);
        }
        let mut v = serde_json::to_value(&q).unwrap();
        v["frames_total"] = serde_json::json!(n);
        v["wire_hex"] = serde_json::json!(hex(&build_stream(&q).wire));
        v
    }
}
