// Deterministic single-threaded executor with a discrete-event clock.
//
// - tasks are plain futures polled by this executor (no tokio runtime);
//   tokio::sync::{mpsc, Mutex} only need a Waker, so the real channels and the
//   real mutex of the code under test work unchanged;
// - the next task to run is chosen by a seeded scheduler among the *sorted*
//   set of ready tasks (so the content of the set, not the wake-up order,
//   determines the choice);
// - simulated time only advances when nothing is runnable: the clock jumps to
//   the earliest timer;
// - every poll is wrapped in catch_unwind; a panic kills the task and is
//   recorded with its source location.

use super::rng::{Fnv, Rng};
use serde::{Deserialize, Serialize};
use std::cell::{Cell, RefCell};
use std::cmp::Reverse;
use std::collections::{BTreeSet, BinaryHeap};
use std::future::Future;
use std::pin::Pin;
use std::sync::{Arc, Mutex};
use std::task::{Context, Poll, Wake, Waker};

/// Unix time of simulated instant 0 (2026-01-01T00:00:00Z); the code under
/// test sees EPOCH + simulated time through hook H3.
pub const EPOCH_S: u64 = 1_767_225_600;

struct TimerEntry {
    at: u64,
    seq: u64,
    waker: Waker,
}
impl PartialEq for TimerEntry {
    fn eq(&self, o: &Self) -> bool {
        self.at == o.at && self.seq == o.seq
    }
}
impl Eq for TimerEntry {}
impl PartialOrd for TimerEntry {
    fn partial_cmp(&self, o: &Self) -> Option<std::cmp::Ordering> {
        Some(self.cmp(o))
    }
}
impl Ord for TimerEntry {
    fn cmp(&self, o: &Self) -> std::cmp::Ordering {
        (self.at, self.seq).cmp(&(o.at, o.seq))
    }
}

thread_local! {
    static NOW_NS: Cell<u64> = const { Cell::new(0) };
    /// wall clock minus simulated (monotonic) time: clock-step faults
    static WALL_OFFSET_NS: Cell<i64> = const { Cell::new(0) };
    static STEP: Cell<u64> = const { Cell::new(0) };
    static TIMER_SEQ: Cell<u64> = const { Cell::new(0) };
    static TIMERS: RefCell<BinaryHeap<Reverse<TimerEntry>>> = RefCell::new(BinaryHeap::new());
    static LOG: Cell<u64> = const { Cell::new(0xcbf2_9ce4_8422_2325) };
    static CAPTURE: Cell<bool> = const { Cell::new(false) };
    static LAST_PANIC: RefCell<Option<PanicRec>> = const { RefCell::new(None) };
    static TRACE: RefCell<Option<Vec<String>>> = const { RefCell::new(None) };
}

#[derive(Clone, Debug, Serialize, Deserialize)]
pub struct PanicRec {
    pub task: String,
    pub file: String,
    pub line: u32,
    pub msg: String,
}

impl PanicRec {
    /// true when the panic was raised from a source file of the repository
    /// under test (not from the driver, not from a dependency acting on the
    /// driver's behalf)
    pub fn in_repo(&self) -> bool {
        (self.file.contains("crates/rs1090/")
            || self.file.contains("crates/jet1090/")
            || self.file.starts_with("src/"))
            && !self.file.contains("/verif/")
            && !self.file.contains("driver/")
    }
    /// the panic is a limit of the simulated environment, not a behaviour of
    /// the code: tokio's timers and I/O driver need a tokio runtime, and the
    /// tasks here are polled by the simulator's own executor (DESIGN.md 10.6)
    pub fn env_limit(&self) -> bool {
        self.msg.contains("there is no reactor running") || self.msg.contains("there is no timer running") || self.msg.contains("must be called from the context of a Tokio") || self.msg.contains("IO is disabled")
    }
    pub fn short_loc(&self) -> String {
        // path relative to the repository, without line (lines move)
        let f = match self.file.find("crates/") {
            Some(i) => &self.file[i..],
            None => &self.file[..],
        };
        f.to_string()
    }
}

pub fn install_panic_hook() {
    use std::sync::Once;
    static ONCE: Once = Once::new();
    ONCE.call_once(|| {
        let default = std::panic::take_hook();
        std::panic::set_hook(Box::new(move |info| {
            if CAPTURE.with(|c| c.get()) {
                let (file, line) = info
                    .location()
                    .map(|l| (l.file().to_string(), l.line()))
                    .unwrap_or(("?".to_string(), 0));
                let msg = if let Some(s) = info.payload().downcast_ref::<&str>() {
                    s.to_string()
                } else if let Some(s) = info.payload().downcast_ref::<String>() {
                    s.clone()
                } else {
                    "<non-string panic>".to_string()
                };
                LAST_PANIC.with(|p| {
                    *p.borrow_mut() = Some(PanicRec {
                        task: String::new(),
                        file,
                        line,
                        msg,
                    })
                });
            } else {
                default(info);
            }
        }));
    });
}

/// Run `f`, capturing a panic (silently) with its location.
pub fn catch<R>(task: &str, f: impl FnOnce() -> R) -> Result<R, PanicRec> {
    let prev = CAPTURE.with(|c| c.replace(true));
    let r = std::panic::catch_unwind(std::panic::AssertUnwindSafe(f));
    CAPTURE.with(|c| c.set(prev));
    match r {
        Ok(v) => Ok(v),
        Err(_) => {
            let mut rec = LAST_PANIC.with(|p| p.borrow_mut().take()).unwrap_or(PanicRec {
                task: String::new(),
                file: "?".into(),
                line: 0,
                msg: "?".into(),
            });
            rec.task = task.to_string();
            Err(rec)
        }
    }
}

// ---------------------------------------------------------------- clock

pub fn now_ns() -> u64 {
    NOW_NS.with(|c| c.get())
}
/// Unix time in seconds (f64) of the simulated instant
pub fn now_unix_f64() -> f64 {
    EPOCH_S as f64 + (now_ns() as i128 + wall_offset_ns() as i128) as f64 * 1e-9
}
pub fn wall_offset_ns() -> i64 {
    WALL_OFFSET_NS.with(|c| c.get())
}
/// Step the wall clock (what hooks H3/H5 show to the code under test): it now
/// reads simulated time + `off`. Timers run on the monotonic simulated time and
/// are not affected, as with a real clock step.
pub fn set_wall_offset_ns(off: i64) {
    WALL_OFFSET_NS.with(|c| c.set(off));
    set_clock(now_ns());
}
pub fn unix_f64_of(ns: u64) -> f64 {
    EPOCH_S as f64 + ns as f64 * 1e-9
}
pub fn step() -> u64 {
    STEP.with(|c| c.get())
}
fn bump_step() -> u64 {
    STEP.with(|c| {
        let v = c.get() + 1;
        c.set(v);
        v
    })
}
fn set_clock(ns: u64) {
    NOW_NS.with(|c| c.set(ns));
    let wall = EPOCH_S as i128 * 1_000_000_000 + ns as i128 + wall_offset_ns() as i128;
    rs1090::decode::time::verif_set_now(Some(wall.max(0) as u128));
}
/// Reset every thread-local of the simulator; called at the start of a run.
pub fn reset_world() {
    TIMERS.with(|t| t.borrow_mut().clear());
    TIMER_SEQ.with(|c| c.set(0));
    STEP.with(|c| c.set(0));
    LOG.with(|c| c.set(0xcbf2_9ce4_8422_2325));
    WALL_OFFSET_NS.with(|c| c.set(0));
    set_clock(0);
}
/// Let the clock jump (clock-skew/jump faults for code that reads H3/H5).
pub fn jump_clock_to(ns: u64) {
    set_clock(ns);
}

pub fn log_u64(v: u64) {
    LOG.with(|c| {
        let mut f = Fnv(c.get());
        f.u64(v);
        c.set(f.0);
    });
}
pub fn log_bytes(b: &[u8]) {
    LOG.with(|c| {
        let mut f = Fnv(c.get());
        f.bytes(b);
        c.set(f.0);
    });
}
pub fn log_hash() -> u64 {
    LOG.with(|c| c.get())
}
pub fn trace_enable(on: bool) {
    TRACE.with(|t| *t.borrow_mut() = if on { Some(Vec::new()) } else { None });
}
pub fn trace_on() -> bool {
    TRACE.with(|t| t.borrow().is_some())
}
pub fn trace(s: impl FnOnce() -> String) {
    TRACE.with(|t| {
        if let Some(v) = t.borrow_mut().as_mut() {
            if v.len() < 4000 {
                v.push(format!("[t={:.6}s step={}] {}", now_ns() as f64 * 1e-9, step(), s()));
            }
        }
    });
}
pub fn trace_take() -> Vec<String> {
    TRACE.with(|t| t.borrow_mut().take().unwrap_or_default())
}

fn register_timer(at: u64, waker: Waker) {
    let seq = TIMER_SEQ.with(|c| {
        let v = c.get();
        c.set(v + 1);
        v
    });
    TIMERS.with(|t| t.borrow_mut().push(Reverse(TimerEntry { at, seq, waker })));
}
/// Wake `waker` when the simulated clock reaches `at` (used by transports).
pub fn wake_at(at: u64, waker: Waker) {
    register_timer(at, waker);
}

pub struct Sleep {
    deadline: u64,
    registered: bool,
}
impl Future for Sleep {
    type Output = ();
    fn poll(mut self: Pin<&mut Self>, cx: &mut Context<'_>) -> Poll<()> {
        if now_ns() >= self.deadline {
            Poll::Ready(())
        } else {
            if !self.registered {
                register_timer(self.deadline, cx.waker().clone());
                self.registered = true;
            }
            Poll::Pending
        }
    }
}
pub fn sleep_ns(d: u64) -> Sleep {
    Sleep {
        deadline: now_ns().saturating_add(d),
        registered: false,
    }
}
pub fn sleep_until_ns(at: u64) -> Sleep {
    Sleep {
        deadline: at,
        registered: false,
    }
}

pub struct YieldNow(bool);
impl Future for YieldNow {
    type Output = ();
    fn poll(mut self: Pin<&mut Self>, cx: &mut Context<'_>) -> Poll<()> {
        if self.0 {
            Poll::Ready(())
        } else {
            self.0 = true;
            cx.waker().wake_by_ref();
            Poll::Pending
        }
    }
}
pub fn yield_now() -> YieldNow {
    YieldNow(false)
}

// ---------------------------------------------------------------- scheduler

#[derive(Clone, Debug, Serialize, Deserialize, PartialEq)]
pub struct SchedSpec {
    /// 0 = uniform random, 1 = sticky, 2 = priorities with change points (PCT-like),
    /// 3 = lowest id first (used by reference executions)
    pub policy: u8,
    pub seed: u64,
    /// sticky: keep-probability in percent; pct: number of change points
    pub param: u32,
    /// pct: steps at which the running task is demoted are drawn below this
    pub horizon: u32,
    /// when present, overrides the policy: k-th choice = forced[k] mod |ready|
    /// (0 once the list is exhausted)
    #[serde(default, skip_serializing_if = "Option::is_none")]
    pub forced: Option<Vec<u16>>,
}

impl SchedSpec {
    pub fn generate(rng: &mut Rng, horizon: u32) -> SchedSpec {
        let policy = match rng.below(10) {
            0..=3 => 0,
            4..=6 => 1,
            _ => 2,
        };
        let param = match policy {
            1 => *rng.pick(&[50u32, 80, 90, 97, 99]),
            2 => rng.range(1, 6) as u32,
            _ => 0,
        };
        SchedSpec {
            policy,
            seed: rng.next_u64(),
            param,
            horizon: horizon.max(4),
            forced: None,
        }
    }
    pub fn fifo() -> SchedSpec {
        SchedSpec {
            policy: 3,
            seed: 0,
            param: 0,
            horizon: 4,
            forced: None,
        }
    }
    pub fn policy_name(&self) -> &'static str {
        if self.forced.is_some() {
            return "forced";
        }
        match self.policy {
            0 => "random",
            1 => "sticky",
            2 => "pct",
            _ => "fifo",
        }
    }
}

struct Scheduler {
    spec: SchedSpec,
    rng: Rng,
    last: Option<usize>,
    prio: Vec<i64>,
    change_points: Vec<u64>,
    low: i64,
    k: usize,
}

impl Scheduler {
    fn new(spec: SchedSpec) -> Scheduler {
        let mut rng = Rng::new(spec.seed);
        let mut change_points = Vec::new();
        if spec.policy == 2 {
            for _ in 0..spec.param {
                change_points.push(rng.below(spec.horizon as u64));
            }
            change_points.sort();
        }
        Scheduler {
            spec,
            rng,
            last: None,
            prio: Vec::new(),
            change_points,
            low: 0,
            k: 0,
        }
    }
    /// returns the position in `ready` (sorted ascending by task id)
    fn pick(&mut self, ready: &[usize], step: u64) -> usize {
        let k = self.k;
        self.k += 1;
        if let Some(f) = &self.spec.forced {
            let v = f.get(k).copied().unwrap_or(0) as usize;
            return v % ready.len();
        }
        let pos = match self.spec.policy {
            0 => self.rng.below(ready.len() as u64) as usize,
            1 => {
                let keep = self.rng.below(100) < self.spec.param as u64;
                match (keep, self.last.and_then(|l| ready.iter().position(|&t| t == l))) {
                    (true, Some(p)) => p,
                    _ => self.rng.below(ready.len() as u64) as usize,
                }
            }
            2 => {
                let maxid = *ready.iter().max().unwrap();
                while self.prio.len() <= maxid {
                    let p = (self.rng.below(1 << 30) as i64) + 1;
                    self.prio.push(p);
                }
                if let Some(l) = self.last {
                    while let Some(&cp) = self.change_points.first() {
                        if cp <= step {
                            self.change_points.remove(0);
                            self.low -= 1;
                            if l < self.prio.len() {
                                self.prio[l] = self.low;
                            }
                        } else {
                            break;
                        }
                    }
                }
                let mut best = 0;
                for (i, &t) in ready.iter().enumerate() {
                    if self.prio[t] > self.prio[ready[best]] {
                        best = i;
                    }
                }
                best
            }
            _ => 0,
        };
        self.last = Some(ready[pos]);
        pos
    }
}

// ---------------------------------------------------------------- executor

struct TaskWaker {
    id: usize,
    ready: Arc<Mutex<BTreeSet<usize>>>,
    /// waker of the executor itself while it is parked inside tokio's time
    /// driver (see `Sim::park`)
    park: Arc<Mutex<Option<Waker>>>,
}
impl TaskWaker {
    fn fire(&self) {
        self.ready.lock().unwrap().insert(self.id);
        if let Some(w) = self.park.lock().unwrap().take() {
            w.wake();
        }
    }
}
impl Wake for TaskWaker {
    fn wake(self: Arc<Self>) {
        self.fire();
    }
    fn wake_by_ref(self: &Arc<Self>) {
        self.fire();
    }
}

/// completes as soon as some task of the simulation has been woken
struct WaitWake {
    ready: Arc<Mutex<BTreeSet<usize>>>,
    park: Arc<Mutex<Option<Waker>>>,
}
impl Future for WaitWake {
    type Output = ();
    fn poll(self: Pin<&mut Self>, cx: &mut Context<'_>) -> Poll<()> {
        if !self.ready.lock().unwrap().is_empty() {
            return Poll::Ready(());
        }
        *self.park.lock().unwrap() = Some(cx.waker().clone());
        Poll::Pending
    }
}

/// what ended a park of the executor
enum Parked {
    /// a task was woken by one of tokio's own timers (tokio::time inside the code under test)
    TaskWoken,
    /// the earliest timer of the simulator is due
    SimTimer,
    /// neither the simulator nor tokio has anything pending
    Nothing,
}

pub type TaskId = usize;

#[derive(Debug, PartialEq, Clone, Copy)]
pub enum RunEnd {
    Quiescent,
    StepCap,
    Stopped,
}

pub struct Sim {
    /// a tokio runtime that is never used to run tasks: it provides the
    /// context (time driver, paused clock) that tokio::time needs when the code
    /// under test uses it, and its paused clock is advanced in step with the
    /// simulated clock (DESIGN.md 10.6)
    rt: Option<tokio::runtime::Runtime>,
    rt_base: tokio::time::Instant,
    park: Arc<Mutex<Option<Waker>>>,
    pub tokio_timer_wakes: u64,
    tasks: Vec<Option<Pin<Box<dyn Future<Output = ()>>>>>,
    names: Vec<&'static str>,
    wakers: Vec<Waker>,
    ready: Arc<Mutex<BTreeSet<usize>>>,
    sched: Scheduler,
    pub steps: u64,
    pub timer_fires: u64,
    pub panics: Vec<PanicRec>,
    pub picks: Vec<u16>,
    pub record_picks: bool,
    pub choice_points: u64,
}

impl Sim {
    /// Creates an executor and resets the simulated world of this thread.
    pub fn new(spec: &SchedSpec) -> Sim {
        reset_world();
        install_panic_hook();
        let rt = tokio::runtime::Builder::new_current_thread()
            .enable_time()
            .start_paused(true)
            .rng_seed(tokio::runtime::RngSeed::from_bytes(&spec.seed.to_le_bytes()))
            .build()
            .expect("tokio runtime for the time driver");
        let rt_base = {
            let _g = rt.enter();
            tokio::time::Instant::now()
        };
        Sim {
            rt: Some(rt),
            rt_base,
            park: Arc::new(Mutex::new(None)),
            tokio_timer_wakes: 0,
            tasks: Vec::new(),
            names: Vec::new(),
            wakers: Vec::new(),
            ready: Arc::new(Mutex::new(BTreeSet::new())),
            sched: Scheduler::new(spec.clone()),
            steps: 0,
            timer_fires: 0,
            panics: Vec::new(),
            picks: Vec::new(),
            record_picks: false,
            choice_points: 0,
        }
    }
    pub fn spawn(
        &mut self,
        name: &'static str,
        fut: impl Future<Output = ()> + 'static,
    ) -> TaskId {
        let id = self.tasks.len();
        // (the whole simulation is one task of the tokio runtime: tokio's
        // cooperative budget, meant for its own scheduler, must not make the
        // simulated tasks' channel and mutex operations return Pending)
        self.tasks.push(Some(Box::pin(tokio::task::unconstrained(fut))));
        self.names.push(name);
        let w = Waker::from(Arc::new(TaskWaker {
            id,
            ready: self.ready.clone(),
            park: self.park.clone(),
        }));
        self.wakers.push(w);
        self.ready.lock().unwrap().insert(id);
        id
    }
    pub fn is_done(&self, id: TaskId) -> bool {
        self.tasks[id].is_none()
    }
    pub fn live_tasks(&self) -> Vec<&'static str> {
        self.tasks
            .iter()
            .enumerate()
            .filter(|(_, t)| t.is_some())
            .map(|(i, _)| self.names[i])
            .collect()
    }
    /// Cancel a task: its future is dropped (as tokio does on abort / as a
    /// disconnecting HTTP client does to a handler).
    pub fn cancel(&mut self, id: TaskId) {
        {
            // (inside `run` the runtime context is already entered)
            let _g = self.rt.as_ref().map(|rt| rt.enter());
            self.tasks[id] = None;
        }
        self.ready.lock().unwrap().remove(&id);
        log_u64(0xCA ^ (id as u64) << 8);
    }
    /// Spurious wake-up of a task.
    pub fn wake(&mut self, id: TaskId) {
        if self.tasks[id].is_some() {
            self.ready.lock().unwrap().insert(id);
        }
    }
    pub fn name(&self, id: TaskId) -> &'static str {
        self.names[id]
    }

    /// One scheduling step. Returns None when nothing is runnable and no
    /// timer is pending (quiescence). Runs inside `block_on` of the simulator's
    /// tokio runtime (see `run`): the runtime context (time driver, seeded RNG
    /// for `tokio::select!`) is the one the code under test finds.
    async fn step_async(&mut self) -> Option<(TaskId, bool)> {
        loop {
            let ready: Vec<usize> = self.ready.lock().unwrap().iter().copied().collect();
            if !ready.is_empty() {
                let pos = if ready.len() == 1 {
                    // not a choice; does not consume a scheduler decision
                    0
                } else {
                    self.choice_points += 1;
                    let p = self.sched.pick(&ready, self.steps);
                    if self.record_picks && self.picks.len() < 200_000 {
                        self.picks.push(p as u16);
                    }
                    p
                };
                let id = ready[pos];
                self.ready.lock().unwrap().remove(&id);
                let Some(fut) = self.tasks[id].as_mut() else {
                    continue;
                };
                let waker = self.wakers[id].clone();
                let mut cx = Context::from_waker(&waker);
                let st = bump_step();
                self.steps += 1;
                let res = catch(self.names[id], || fut.as_mut().poll(&mut cx));
                let done = match res {
                    Ok(Poll::Ready(())) => true,
                    Ok(Poll::Pending) => false,
                    Err(rec) => {
                        trace(|| format!("PANIC in task {} at {}:{}: {}", rec.task, rec.file, rec.line, rec.msg));
                        self.panics.push(rec);
                        true
                    }
                };
                if done {
                    self.tasks[id] = None;
                    self.ready.lock().unwrap().remove(&id);
                }
                log_u64((st << 20) ^ ((id as u64) << 1) ^ done as u64);
                return Some((id, done));
            }
            // nothing runnable: park until the earliest timer — of the simulator or
            // of tokio's time driver, whichever comes first on the shared time line
            let next_sim: Option<u64> = TIMERS.with(|t| t.borrow().peek().map(|e| e.0.at));
            match self.park(next_sim).await {
                Parked::Nothing => return None,
                Parked::TaskWoken => {
                    self.tokio_timer_wakes += 1;
                    let now = self.tokio_now_ns();
                    if now > now_ns() {
                        set_clock(now);
                    }
                    bump_step();
                    log_u64(0x7132 ^ now);
                    continue;
                }
                Parked::SimTimer => {}
            }
            let fired = TIMERS.with(|t| {
                let mut t = t.borrow_mut();
                let Some(Reverse(first)) = t.pop() else {
                    return None;
                };
                let at = first.at;
                let mut ws = vec![first.waker];
                while let Some(Reverse(e)) = t.peek() {
                    if e.at <= at {
                        ws.push(t.pop().unwrap().0.waker);
                    } else {
                        break;
                    }
                }
                Some((at, ws))
            });
            match fired {
                None => return None,
                Some((at, ws)) => {
                    if at > now_ns() {
                        set_clock(at);
                    }
                    bump_step();
                    self.timer_fires += ws.len() as u64;
                    log_u64(0x7131 ^ at);
                    for w in ws {
                        w.wake();
                    }
                }
            }
        }
    }

    fn tokio_now_ns(&self) -> u64 {
        tokio::time::Instant::now().saturating_duration_since(self.rt_base).as_nanos() as u64
    }

    /// Let tokio's paused clock run forward to the next timer: the simulator's
    /// earliest one (`next_sim`), a timer of the code under test registered with
    /// tokio's driver, or — when neither exists — a sentinel far in the future,
    /// which means the system is quiescent.
    async fn park(&mut self, next_sim: Option<u64>) -> Parked {
        const SENTINEL_NS: u64 = 400 * 86_400 * 1_000_000_000;
        let base = self.rt_base;
        let wake = WaitWake { ready: self.ready.clone(), park: self.park.clone() };
        let sentinel = tokio::time::sleep_until(base + std::time::Duration::from_nanos(now_ns().saturating_add(SENTINEL_NS)));
        let r = match next_sim {
            Some(at) => {
                let sim = tokio::time::sleep_until(base + std::time::Duration::from_nanos(at));
                tokio::select! {
                    biased;
                    _ = wake => Parked::TaskWoken,
                    _ = sim => Parked::SimTimer,
                    _ = sentinel => Parked::Nothing,
                }
            }
            None => {
                tokio::select! {
                    biased;
                    _ = wake => Parked::TaskWoken,
                    _ = sentinel => Parked::Nothing,
                }
            }
        };
        *self.park.lock().unwrap() = None;
        r
    }

    /// Run until quiescence, the step cap, or until `hook` returns false.
    /// `hook` is called after every poll with the task that ran.
    pub fn run(
        &mut self,
        step_cap: u64,
        mut hook: impl FnMut(&mut Sim, TaskId, bool) -> bool,
    ) -> RunEnd {
        let rt = self.rt.take().expect("the simulator's runtime");
        let r = rt.block_on(async {
            loop {
                if self.steps >= step_cap {
                    return RunEnd::StepCap;
                }
                match self.step_async().await {
                    None => return RunEnd::Quiescent,
                    Some((id, done)) => {
                        if !hook(self, id, done) {
                            return RunEnd::Stopped;
                        }
                    }
                }
            }
        });
        self.rt = Some(rt);
        r
    }
    pub fn pending_timers(&self) -> usize {
        TIMERS.with(|t| t.borrow().len())
    }
}

impl Drop for Sim {
    fn drop(&mut self) {
        // drop the tasks before the timers so that no waker outlives the run
        {
            let _g = self.rt.as_ref().map(|rt| rt.enter());
            self.tasks.clear();
        }
        TIMERS.with(|t| t.borrow_mut().clear());
    }
}
