// Shared pieces for the harnesses that drive jet1090's application state:
// construction of `Jet1090` as main() does it, and the re-stated main loop.
// Everything these lines *call* is the real code; the lines themselves are a
// stub of closures inlined in main() (declared as such in the evidence).

use super::exec;
use crate::{Jet1090, SortKey};
use ratatui::widgets::{ScrollbarState, TableState};
use rs1090::decode::cpr::{decode_position, AircraftState, Position};
use rs1090::prelude::*;
use std::collections::BTreeMap;
use std::future::Future;
use std::pin::Pin;
use std::sync::Arc;
use std::task::{Context, Poll, Wake, Waker};
use tokio::sync::Mutex;

/// `Jet1090` exactly as main() builds it (main.rs:327-340)
pub fn new_app(width: u16) -> Jet1090 {
    // main() lists every field (main.rs:327-340); all of them have their Default
    // value except the pre-selected first row, the scrollbar state and the width.
    // Going through Default keeps the driver compiling when a field is added.
    Jet1090 {
        state: TableState::default().with_selected(0),
        scroll_state: ScrollbarState::new(0),
        width,
        ..Default::default()
    }
}

struct Noop;
impl Wake for Noop {
    fn wake(self: Arc<Self>) {}
}

/// Drive a future of the code under test that runs on PRIVATE state (nothing
/// else can hold what it waits for) to completion: polled until it is ready.
/// A future that suspends on its own account (a `yield_now`, a zero-length
/// sleep) completes after a few polls; one that is still pending after many is
/// waiting for something that cannot happen here.
pub fn now_or_never<T>(fut: impl Future<Output = T>) -> Option<T> {
    let w = Waker::from(Arc::new(Noop));
    let mut cx = Context::from_waker(&w);
    let mut fut = Box::pin(fut);
    for _ in 0..10_000 {
        if let Poll::Ready(v) = Pin::new(&mut fut).poll(&mut cx) {
            return Some(v);
        }
    }
    None
}

pub fn clone_tm(m: &TimedMessage) -> TimedMessage {
    TimedMessage {
        timestamp: m.timestamp,
        frame: m.frame.clone(),
        message: m.message.clone(),
        metadata: m.metadata.clone(),
        decode_time: m.decode_time,
    }
}

pub struct LoopHooks {
    /// called right after update_snapshot returned, in the same poll
    pub after_update: Box<dyn FnMut(usize, &TimedMessage)>,
    /// called right after store_history returned
    pub after_history: Box<dyn FnMut(usize)>,
    /// insert scheduling points between the consecutive real calls
    pub yields: bool,
    pub store_history: bool,
}

thread_local! {
    static HOOKS: std::cell::RefCell<Option<LoopHooks>> = const { std::cell::RefCell::new(None) };
    static HOOK_N: std::cell::Cell<usize> = const { std::cell::Cell::new(0) };
}

/// "extracted": the loop below is the text of main() in /repo's working tree;
/// "fallback": the driver's copy of it (see tools in ./check, DESIGN.md 10.7)
pub const MAIN_LOOP_SOURCE: &str = include_str!(concat!(env!("XOOLIVE_RS1090_VERIF_GEN"), "/extraction.txt"));

/// how the decoding loop is declared in the evidence
pub fn main_loop_component() -> (&'static str, &'static str) {
    if MAIN_LOOP_SOURCE.trim() == "extracted" {
        ("main()'s decoding loop (main.rs: `let update_reference = ...` to the end of `while let Some(mut msg) = rx_dedup.recv().await`)", "real (the repository's own lines, copied verbatim at build time into a wrapper that supplies main()'s bindings; observation points by shadowing the module name `snapshot`)")
    } else {
        ("main()'s decoding loop", "stub (the driver's copy in driver/fallback/: the text could not be located in main.rs or did not compile in the wrapper)")
    }
}

/// what main() calls `options` inside its loop
struct LoopOptions {
    update_position: bool,
    verbose: bool,
    history_expire: Option<u64>,
}

/// main()'s decoding loop (main.rs, from `let update_reference = ...` to the end
/// of `while let Some(mut msg) = rx_dedup.recv().await { ... }`), compiled from
/// the repository's own text: `./check build` copies those lines verbatim into
/// the generated file included below. This function only provides the bindings
/// the lines refer to (as main() sets them up for a run without output file,
/// redis, verbose output or aircraft database) and, by shadowing the module name
/// `snapshot`, the observation points of the harness around the two real calls.
pub async fn main_loop(
    mut rx_dedup: tokio::sync::mpsc::Receiver<TimedMessage>,
    app_dec: Arc<Mutex<Jet1090>>,
    references: BTreeMap<u64, Option<Position>>,
    hooks: LoopHooks,
) {
    let store_history = hooks.store_history;
    HOOKS.with(|h| *h.borrow_mut() = Some(hooks));
    HOOK_N.with(|n| n.set(0));
    let r = main_loop_inner(&mut rx_dedup, app_dec, references, store_history).await;
    HOOKS.with(|h| *h.borrow_mut() = None);
    if let Err(e) = r {
        panic!("main loop returned an error: {}", e);
    }
}

#[allow(unused_mut, unused_variables, clippy::all)]
async fn main_loop_inner(
    rx_dedup: &mut tokio::sync::mpsc::Receiver<TimedMessage>,
    app_dec: Arc<Mutex<Jet1090>>,
    mut references: BTreeMap<u64, Option<Position>>,
    store_history: bool,
) -> Result<(), Box<dyn std::error::Error>> {
    use crate::filters;
    use redis::AsyncCommands;
    use tokio::io::AsyncWriteExt;
    /// the harness's observation points around the real calls
    mod snapshot {
        use super::super::exec;
        use super::{HOOKS, HOOK_N};
        use crate::{aircraftdb, Jet1090};
        use rs1090::prelude::TimedMessage;
        use std::collections::BTreeMap;
        use tokio::sync::Mutex;
        fn yields() -> bool {
            HOOKS.with(|h| h.borrow().as_ref().map_or(false, |h| h.yields))
        }
        pub async fn update_snapshot(states: &Mutex<Jet1090>, msg: &mut TimedMessage, db: &BTreeMap<String, aircraftdb::Aircraft>) {
            if yields() {
                exec::yield_now().await;
            }
            crate::snapshot::update_snapshot(states, msg, db).await;
            // index of this record (one update_snapshot per loop turn)
            let n = HOOK_N.with(|n| {
                let v = n.get();
                n.set(v + 1);
                v
            });
            HOOKS.with(|h| {
                if let Some(h) = h.borrow_mut().as_mut() {
                    (h.after_update)(n, msg)
                }
            });
            if yields() {
                exec::yield_now().await;
            }
        }
        pub async fn store_history(states: &Mutex<Jet1090>, msg: TimedMessage, db: &BTreeMap<String, aircraftdb::Aircraft>) {
            crate::snapshot::store_history(states, msg, db).await;
            let n = HOOK_N.with(|n| n.get()).saturating_sub(1);
            HOOKS.with(|h| {
                if let Some(h) = h.borrow_mut().as_mut() {
                    (h.after_history)(n)
                }
            });
        }
    }
    let options = LoopOptions {
        update_position: false,
        verbose: false,
        history_expire: if store_history { None } else { Some(0) },
    };
    let aircraftdb: BTreeMap<String, crate::aircraftdb::Aircraft> = BTreeMap::new();
    let mut aircraft: BTreeMap<ICAO, AircraftState> = BTreeMap::new();
    // (no output filter configured: every field absent)
    let filters: crate::filters::Filters = serde_json::from_str("{}").expect("Filters without any filter");
    let mut file: Option<tokio::fs::File> = None;
    let mut redis_connect: Option<redis::aio::MultiplexedConnection> = None;
    let redis_topic = "jet1090".to_string();
    include!(concat!(env!("XOOLIVE_RS1090_VERIF_GEN"), "/main_loop_body.rs"));

    Ok(())
}
