// Shared pieces for the harnesses that drive jet1090's application state:
// construction of `Jet1090` as main() does it, and the re-stated main loop.
// Everything these lines *call* is the real code; the lines themselves are a
// stub of closures inlined in main() (declared as such in the evidence).

use super::exec;
use crate::{Jet1090, SortKey};
use ratatui::widgets::{ScrollbarState, TableState};
use rs1090::decode::cpr::{decode_position, AircraftState, Position};
use rs1090::prelude::*;
use std::collections::BTreeMap;
use std::future::Future;
use std::pin::Pin;
use std::sync::Arc;
use std::task::{Context, Poll, Wake, Waker};
use tokio::sync::Mutex;

/// `Jet1090` exactly as main() builds it (main.rs:327-340)
pub fn new_app(width: u16) -> Jet1090 {
    Jet1090 {
        sensors: BTreeMap::new(),
        items: Vec::new(),
        state: TableState::default().with_selected(0),
        scroll_state: ScrollbarState::new(0),
        should_quit: false,
        should_clear: false,
        state_vectors: BTreeMap::new(),
        sort_key: SortKey::default(),
        sort_asc: false,
        width,
        is_search_mode: false,
        search_query: "".to_string(),
    }
}

struct Noop;
impl Wake for Noop {
    fn wake(self: Arc<Self>) {}
}

/// Poll a future that must complete without suspending (an uncontended
/// tokio mutex, a ready hyper body).
pub fn now_or_never<T>(fut: impl Future<Output = T>) -> Option<T> {
    let w = Waker::from(Arc::new(Noop));
    let mut cx = Context::from_waker(&w);
    let mut fut = Box::pin(fut);
    match Pin::new(&mut fut).poll(&mut cx) {
        Poll::Ready(v) => Some(v),
        Poll::Pending => None,
    }
}

pub fn clone_tm(m: &TimedMessage) -> TimedMessage {
    TimedMessage {
        timestamp: m.timestamp,
        frame: m.frame.clone(),
        message: m.message.clone(),
        metadata: m.metadata.clone(),
        decode_time: m.decode_time,
    }
}

pub struct LoopHooks {
    /// called right after update_snapshot returned, in the same poll
    pub after_update: Box<dyn FnMut(usize, &TimedMessage)>,
    /// called right after store_history returned
    pub after_history: Box<dyn FnMut(usize)>,
    /// insert scheduling points between the consecutive real calls
    pub yields: bool,
    pub store_history: bool,
}

/// The body of main()'s `while let Some(mut msg) = rx_dedup.recv().await`
/// loop (main.rs:494-596), with verbose/file/redis output left out.
pub async fn main_loop(
    mut rx: tokio::sync::mpsc::Receiver<TimedMessage>,
    app_dec: Arc<Mutex<Jet1090>>,
    references: BTreeMap<u64, Option<Position>>,
    mut hooks: LoopHooks,
) {
    let aircraftdb: BTreeMap<String, crate::aircraftdb::Aircraft> = BTreeMap::new();
    let mut aircraft: BTreeMap<ICAO, AircraftState> = BTreeMap::new();
    let filters = crate::filters::Filters {
        df_filter: None,
        aircraft_filter: None,
    };
    let mut first_msg = true;
    let mut n = 0usize;
    while let Some(mut msg) = rx.recv().await {
        if first_msg {
            app_dec.lock().await.should_clear = true;
            first_msg = false;
        }
        if let Some(message) = &mut msg.message {
            match &mut message.df {
                ExtendedSquitterADSB(adsb) => match adsb.message {
                    ME::BDS05(_) | ME::BDS06(_) => {
                        // main.rs:517-523: the reference of the sensor that heard it first
                        let serial = msg.metadata.first().map(|meta| meta.serial).unwrap();
                        let mut reference = references[&serial];
                        decode_position(&mut adsb.message, msg.timestamp, &adsb.icao24, &mut aircraft, &mut reference, &None);
                    }
                    _ => {}
                },
                ExtendedSquitterTisB { cf, .. } => match cf.me {
                    ME::BDS05(_) | ME::BDS06(_) => {
                        let serial = msg.metadata.first().map(|meta| meta.serial).unwrap();
                        let mut reference = references[&serial];
                        decode_position(&mut cf.me, msg.timestamp, &cf.aa, &mut aircraft, &mut reference, &None)
                    }
                    _ => {}
                },
                _ => {}
            }
        };
        if hooks.yields {
            exec::yield_now().await;
        }
        crate::snapshot::update_snapshot(&app_dec, &mut msg, &aircraftdb).await;
        (hooks.after_update)(n, &msg);
        if hooks.yields {
            exec::yield_now().await;
        }
        let is_in = crate::filters::Filters::is_in(&filters, &msg);
        let _json = serde_json::to_string(&msg);
        if hooks.store_history && is_in {
            crate::snapshot::store_history(&app_dec, msg, &aircraftdb).await;
        }
        (hooks.after_history)(n);
        n += 1;
        if app_dec.lock().await.should_quit {
            break;
        }
    }
}
