// Pipeline scenario — the whole of jet1090's live path in one simulated process.
//
//   simulated aircraft ──radio (loss, duplicates, bit flips)──> 1-3 simulated
//   receivers ──Beast bytes, own latency──> TimedPipe (chunking, dribble, bursts,
//   stalls) ──> REAL rs1090::source::beast::receiver (real next_msg, real
//   process_radarcape, clock through hook H3) ──> REAL tokio mpsc ──[tap]──>
//   REAL dedup::deduplicate_messages ──> REAL tokio mpsc ──> main loop (re-stated
//   lines around REAL decode_position / update_snapshot / Filters::is_in /
//   serde_json / store_history) ──> REAL Jet1090 behind its REAL tokio mutex
//   <── REAL update()/build_table() (TUI task), REAL web::all readers,
//   lock-holders, expiry sweep.
//
// Every claimed property is judged at its own observation point with the
// world's ground truth; the scenario is instantiated once per property and
// reports the violations of that property's clauses only (the plans are the
// same for the five instantiations: same seed tag).

use super::app;
use super::batch::{Meta, Outcome, Scenario, Tier, Violation};
use super::c06;
use super::c09::escape;
use super::c12;
use super::c17;
use super::exec::{self, RunEnd, SchedSpec, Sim};
use super::rng::{Fnv, Rng};
use super::world::{self, Track};
use crate::Jet1090;
use rs1090::decode::cpr::Position;
use rs1090::prelude::*;
use serde::{Deserialize, Serialize};
use serde_json::Value;
use std::cell::RefCell;
use std::collections::{BTreeMap, HashMap};
use std::pin::Pin;
use std::rc::Rc;
use std::sync::Arc;
use std::task::{Context, Poll};
use tokio::io::{AsyncRead, ReadBuf};
use tokio::sync::Mutex;
use warp::Reply;

// ------------------------------------------------------------------ transport

/// A byte stream whose bytes become readable at given simulated instants.
/// `chunks[i] = (at_ns, end_offset)`: bytes up to `end_offset` are readable from
/// `at_ns` on. After the last chunk the connection stays open and silent.
pub struct TimedPipe {
    data: Arc<Vec<u8>>,
    chunks: Vec<(u64, usize)>,
    ci: usize,
    pos: usize,
    read_cap: usize,
    pub reads: Arc<std::sync::Mutex<(u64, u64, u64)>>, // (reads, big reads, pendings)
}

impl AsyncRead for TimedPipe {
    fn poll_read(mut self: Pin<&mut Self>, cx: &mut Context<'_>, buf: &mut ReadBuf<'_>) -> Poll<std::io::Result<()>> {
        let this = &mut *self;
        while this.ci < this.chunks.len() && this.pos >= this.chunks[this.ci].1 {
            this.ci += 1;
        }
        if this.ci >= this.chunks.len() {
            return Poll::Pending; // open and silent: never woken again
        }
        let (at, _) = this.chunks[this.ci];
        if exec::now_ns() < at {
            exec::wake_at(at, cx.waker().clone());
            this.reads.lock().unwrap().2 += 1;
            return Poll::Pending;
        }
        // everything that has arrived by now is readable in one go (as a
        // socket buffer would hold it)
        let mut avail_end = this.chunks[this.ci].1;
        let mut k = this.ci + 1;
        while k < this.chunks.len() && this.chunks[k].0 <= exec::now_ns() {
            avail_end = this.chunks[k].1;
            k += 1;
        }
        let mut n = (avail_end - this.pos).min(buf.remaining());
        if this.read_cap > 0 {
            n = n.min(this.read_cap);
        }
        buf.put_slice(&this.data[this.pos..this.pos + n]);
        this.pos += n;
        {
            let mut r = this.reads.lock().unwrap();
            r.0 += 1;
            if n >= 1024 {
                r.1 += 1;
            }
        }
        exec::log_u64(0xD100_0000 | n as u64);
        Poll::Ready(Ok(()))
    }
}

/// The same delivery plan for a datagram socket: every chunk is one datagram
/// (cut into datagrams of at most 1024 bytes, the size the reader asks the
/// socket for); datagrams queue up and are received one per call.
pub struct TimedDatagrams {
    data: Arc<Vec<u8>>,
    chunks: Vec<(u64, usize)>,
    ci: usize,
    pos: usize,
    pub reads: Arc<std::sync::Mutex<(u64, u64, u64)>>,
}

impl futures_util::stream::Stream for TimedDatagrams {
    type Item = std::io::Result<Vec<u8>>;
    fn poll_next(mut self: Pin<&mut Self>, cx: &mut Context<'_>) -> Poll<Option<Self::Item>> {
        let this = &mut *self;
        while this.ci < this.chunks.len() && this.pos >= this.chunks[this.ci].1 {
            this.ci += 1;
        }
        if this.ci >= this.chunks.len() {
            return Poll::Pending; // nobody sends any more: silent
        }
        let (at, end) = this.chunks[this.ci];
        if exec::now_ns() < at {
            exec::wake_at(at, cx.waker().clone());
            this.reads.lock().unwrap().2 += 1;
            return Poll::Pending;
        }
        let n = (end - this.pos).min(1024);
        let d = this.data[this.pos..this.pos + n].to_vec();
        this.pos += n;
        this.reads.lock().unwrap().0 += 1;
        exec::log_u64(0xD200_0000 | n as u64);
        Poll::Ready(Some(Ok(d)))
    }
}

/// The same delivery plan for a websocket: every chunk is one binary message
/// (server side of the connection after the handshake, unmasked, FIN set)
fn websocket_plan(data: &[u8], chunks: &[(u64, usize)]) -> (Vec<u8>, Vec<(u64, usize)>) {
    let mut wire = Vec::new();
    let mut out = Vec::new();
    let mut pos = 0usize;
    for (at, end) in chunks {
        let n = end.saturating_sub(pos);
        if n == 0 {
            continue;
        }
        wire.push(0x82);
        if n < 126 {
            wire.push(n as u8);
        } else if n < 65536 {
            wire.push(126);
            wire.extend_from_slice(&(n as u16).to_be_bytes());
        } else {
            wire.push(127);
            wire.extend_from_slice(&(n as u64).to_be_bytes());
        }
        wire.extend_from_slice(&data[pos..*end]);
        pos = *end;
        out.push((*at, wire.len()));
    }
    (wire, out)
}

/// scheme of a configured source: "tcp", "udp" or "ws"
fn scheme_of(text: &str) -> &'static str {
    if text.starts_with("udp") {
        "udp"
    } else if text.starts_with("ws") || text.contains("\"websocket\"") {
        "ws"
    } else {
        "tcp"
    }
}

/// A piece of the source's text that the address handed to connect / bind /
/// connect_async must contain and that no other receiver's text contains:
/// ":port", "host:" or "/last path segment"
/// The configured text of a receiver together with the address it will hand
/// to connect / bind when the text is the long (JSON) form, in which host and
/// port are separate fields: a token must be told apart from both
fn address_forms(text: &str) -> String {
    let mut forms = text.to_string();
    if text.starts_with('{') {
        if let Ok(v) = serde_json::from_str::<Value>(text) {
            for scheme in ["tcp", "udp", "websocket", "ws"] {
                let o = &v[scheme];
                if let Some(a) = o["address"].as_str() {
                    let port = o["port"].as_u64().map(|p| p.to_string()).or_else(|| o["port"].as_str().map(|s| s.to_string())).unwrap_or_default();
                    forms.push_str(&format!(" {}:{} ", a, port));
                }
            }
        }
    }
    forms
}

fn address_token(j: usize, texts: &[String]) -> String {
    let forms: Vec<String> = texts.iter().map(|t| address_forms(t)).collect();
    let t = &texts[j];
    let mut cands: Vec<String> = Vec::new();
    let digits = |s: &str| -> Vec<String> {
        let mut v = Vec::new();
        let mut cur = String::new();
        for c in s.chars() {
            if c.is_ascii_digit() {
                cur.push(c);
            } else if !cur.is_empty() {
                v.push(std::mem::take(&mut cur));
            }
        }
        if !cur.is_empty() {
            v.push(cur);
        }
        v
    };
    if let Some(last) = digits(t).last() {
        if scheme_of(t) == "ws" {
            cands.push(format!("/{}", last));
        } else {
            cands.push(format!(":{}", last));
        }
    }
    // host: of the URL, or of the "address" field of the long form
    let host: Option<String> = if t.starts_with('{') {
        serde_json::from_str::<Value>(t).ok().and_then(|v| v["tcp"]["address"].as_str().map(|s| s.to_string()))
    } else {
        t.split("://").nth(1).and_then(|rest| rest.split(|c| c == ':' || c == '/').next()).map(|s| s.to_string())
    };
    if let Some(host) = host {
        cands.push(format!("{}:", host));
        if let Some(last) = digits(t).last() {
            cands.push(format!("{}:{}", host, last));
        }
    }
    for c in &cands {
        if !forms.iter().enumerate().any(|(k, o)| k != j && o.contains(c.as_str())) {
            return c.clone();
        }
    }
    cands.into_iter().next().unwrap_or_default()
}

// ------------------------------------------------------------------ plan

#[derive(Clone, Debug, Serialize, Deserialize)]
pub struct PAircraft {
    pub icao: u32,
    pub track: Track,
    pub callsign: String,
    pub squawk: [u8; 4],
}

/// one transmission of an aircraft
#[derive(Clone, Debug, Serialize, Deserialize)]
pub struct Tx {
    pub ac: u8,
    /// instant (ns of simulated time) at which it is encoded and sent
    pub t_ns: u64,
    /// 0 position (airborne or surface, from the truth), 1 identification,
    /// 2 velocity, 3 DF11, 4 DF4, 5 DF5, 6 Comm-B / other from the corpus,
    /// 7 Mode-AC reply (2 bytes, no address), 8 DF0, 9 DF17 type code 0 (no position)
    pub kind: u8,
    pub odd: bool,
    /// selector for kind 6 / the type code of positions
    pub sel: u8,
}

/// one reception of a transmission by a receiver
#[derive(Clone, Debug, Serialize, Deserialize)]
pub struct Rcpt {
    pub id: u32,
    pub tx: u32,
    pub rx: u8,
    /// propagation + receiver + network latency
    pub delay_ns: u64,
    /// bit of the frame flipped on the radio channel
    #[serde(default, skip_serializing_if = "Option::is_none")]
    pub flip: Option<u8>,
}

#[derive(Clone, Debug, Serialize, Deserialize)]
pub struct RxPlan {
    /// the source as the user configures it (main() derives the sensor's serial
    /// number and reference from it through Source::serial / sensor::sensors)
    #[serde(default)]
    pub source: String,
    pub reference: Option<(f64, f64)>,
    /// 0 one chunk per frame, 1 random cuts, 2 one byte per read, 3 bursts of >= 1 kB,
    /// 4 batches: everything that arrives within an interval of 0.05-2 s is delivered at its end
    pub style: u8,
    pub cut_seed: u64,
    /// (index of the reception in this receiver's wire order, extra delay):
    /// the network stalls; everything from that frame on arrives later
    pub stalls: Vec<(u32, u64)>,
    /// Some(offset): a receiver with a GNSS clock; its 48-bit timestamps carry the
    /// time of day (+ this offset, ns); None: a free-running counter
    #[serde(default)]
    pub gnss_offset_ns: Option<i64>,
    /// a receiver 100-400 NM away: it hears the airborne traffic only (its
    /// reference is of no use for the surface reports it never receives)
    #[serde(default)]
    pub far: bool,
    /// a source configured as tcp:// whose connection is refused: the real
    /// receiver then binds a UDP socket on the same address (beast.rs) and the
    /// chunks arrive as datagrams
    #[serde(default)]
    pub refuse_tcp: bool,
}

#[derive(Clone, Debug, Serialize, Deserialize)]
pub struct PipelinePlan {
    pub aircraft: Vec<PAircraft>,
    pub txs: Vec<Tx>,
    pub rcpts: Vec<Rcpt>,
    pub receivers: Vec<RxPlan>,
    pub window_ms: u32,
    pub cap: usize,
    /// a forwarding task between the receivers' channel and dedup records the
    /// arrival order (stub; otherwise the receivers' channel is dedup's input)
    pub tap: bool,
    pub yields: bool,
    pub store_history: bool,
    /// terminal session: size and timed events (empty = no TUI task)
    pub term: (u16, u16),
    pub events: Vec<c17::TimedEv>,
    /// instants of GET /all requests
    pub readers: Vec<u64>,
    pub holds: Vec<(u64, u64)>,
    /// expiry sweep period in s (0 = none) and age limit in minutes
    pub sweep: (u32, u64),
    /// instant of the flush frames that close every window
    pub t_flush_ns: u64,
    /// the terminal session (ticks, end-of-session quit) lasts until here: later
    /// than the second-stage flush
    #[serde(default)]
    pub session_end_ns: u64,
    pub sched: SchedSpec,
}

pub struct Pipeline {
    pub prop: &'static str,
    /// thorough tier: each property's instantiation explores its own plans
    /// (in the quick tier and in replays the five instantiations share them)
    pub own_plans: bool,
}

fn frame_of(plan: &PipelinePlan, tx: &Tx) -> Option<(Vec<u8>, Option<world::TruthPoint>)> {
    let ac = &plan.aircraft[tx.ac as usize % plan.aircraft.len()];
    let t = tx.t_ns as f64 * 1e-9;
    let truth = ac.track.at(t);
    Some(match tx.kind {
        0 => {
            let (f, enc) = if truth.surface {
                world::df17_surface_position(ac.icao, 5 + tx.sel % 4, truth.gs, truth.heading, truth.lat, truth.lon, tx.odd)
            } else {
                world::df17_airborne_position_alt(ac.icao, [9u8, 10, 11, 12, 13, 14, 15, 16, 17, 18, 20, 21, 22][tx.sel as usize % 13], world::ac12(truth.alt as i32, world::uses_gillham(ac.icao, truth.alt as i32)), truth.lat, truth.lon, tx.odd)
            };
            if world::nl_margin(enc.rlat) < 1e-6 {
                return None;
            }
            (f, Some(truth))
        }
        9 => (world::df17(ac.icao, 5, (world::ac12(truth.alt as i32, world::uses_gillham(ac.icao, truth.alt as i32)) as u64) << 36), None),
        1 => (world::df17_identification(ac.icao, 1 + tx.sel % 4, 3, &ac.callsign), None),
        2 => {
            let h = truth.heading.to_radians();
            (world::df17_velocity_gs(ac.icao, (truth.gs * h.sin()) as i32, (truth.gs * h.cos()) as i32, 0), None)
        }
        3 => (world::df11(ac.icao, 5), None),
        4 => (world::df4(ac.icao, 0, truth.alt as i32), None),
        5 => (world::df5(ac.icao, 0, ac.squawk), None),
        6 => {
            // (not the position report of the corpus: a position that is not the
            // aircraft's own would be a lie of the world, not a fault of the system)
            let c = c12::CORPUS[tx.sel as usize % (c12::CORPUS.len() - 1)];
            debug_assert!(c12::CORPUS[c12::CORPUS.len() - 1].starts_with("8c4841753a9a"));
            (world::readdress(&world::unhex(c), ac.icao)?, None)
        }
        7 => (vec![0x20 | (tx.sel & 0x0f), tx.sel.wrapping_mul(37)], None),
        _ => (world::df0(ac.icao, truth.alt as i32), None),
    })
}

/// the reception id travels in the low 20 bits of the 48-bit receiver timestamp
const ID_BITS: u64 = 20;
const ID_MASK: u64 = (1 << ID_BITS) - 1;

fn id_of(md: &SensorMetadata) -> u32 {
    md.nanoseconds.map(|n| (n & ID_MASK) as u32).unwrap_or(u32::MAX)
}

/// 48-bit timestamp of a receiver: seconds of the day << 30 | nanoseconds for a
/// GNSS receiver (radarcape format), an implausible day second for a counter
fn mlat_of(id: u32, gnss: Option<i64>, t_rx_ns: u64) -> u64 {
    match gnss {
        Some(off) => {
            let t = (t_rx_ns as i128 + off as i128).rem_euclid(86_400_000_000_000) as u64;
            let (sec, nanos) = (t / 1_000_000_000, t % 1_000_000_000);
            (sec << 30) | (nanos & !ID_MASK & 0x3FFF_FFFF) | (id as u64 & ID_MASK)
        }
        // a free-running counter: the upper bits are whatever the uptime made
        // them (the receiver index selects a remarkable prefix)
        None => {
            let hi: u64 = [0x3_FFFF, 0x3_FC00, 0x0_0000, 0x2_AAAA, 0x3_FC03][(id as usize / 7) % 5];
            (hi << 30) | (((t_rx_ns / 83) << ID_BITS) & 0x3FFF_FFFF & !ID_MASK) | (id as u64 & ID_MASK)
        }
    }
}

fn beast_frame(id: u32, mlat: u64, payload: &[u8]) -> Vec<u8> {
    let ty = match payload.len() {
        2 => 0x31u8,
        7 => 0x32,
        _ => 0x33,
    };
    let mut f = vec![0x1a, ty];
    f.extend_from_slice(&mlat.to_be_bytes()[2..8]);
    f.push((id as u8).wrapping_mul(31) | 1); // signal level, never 0xff... (odd: 0xff possible; harmless)
    f.extend_from_slice(payload);
    f
}

impl Scenario for Pipeline {
    type Plan = PipelinePlan;
    fn id(&self) -> &'static str {
        self.prop
    }
    fn kind(&self) -> &'static str {
        "pipeline"
    }
    fn seed_tag(&self) -> String {
        if self.own_plans {
            format!("pipeline/{}", self.prop)
        } else {
            "pipeline".to_string()
        }
    }
    fn runs(&self, tier: Tier) -> u64 {
        match tier {
            Tier::Quick => 1_500,
            Tier::Thorough => 200_000,
        }
    }
    fn generate(&self, rng: &mut Rng, tier: Tier, _idx: u64) -> PipelinePlan {
        let n_ac = *rng.pick(&[1usize, 1, 2, 2, 3]);
        let max_reports = match tier {
            Tier::Quick => 50,
            Tier::Thorough => *rng.pick(&[50usize, 50, 80, 200]),
        };
        // the first aircraft may land / taxi / take off, the others fly
        let kind0 = *rng.pick(&[0u8, 0, 0, 1, 1, 2, 3]);
        let mut aircraft = Vec::new();
        let mut txs: Vec<Tx> = Vec::new();
        let mut surface_point = None;
        for a in 0..n_ac {
            let g = c06::gen_aircraft(rng, if a == 0 { kind0 } else { 0 }, max_reports);
            if a == 0 {
                surface_point = g.surface_point;
            }
            let mut icao = g.plan.icao;
            while aircraft.iter().any(|x: &PAircraft| x.icao == icao) || icao >= 0xFF_FFF0 {
                icao = rng.range(1, 0xFF_FF00) as u32;
            }
            let reports = c06::emit_reports(rng, a as u8, &g, max_reports);
            for r in &reports {
                txs.push(Tx { ac: a as u8, t_ns: (r.t_enc * 1e9) as u64, kind: 0, odd: r.odd, sel: rng.byte() });
                // other traffic of the same transponder around it
                if rng.chance(0.35) {
                    let kind = *rng.pick(&[1u8, 2, 2, 3, 4, 4, 5, 6, 6, 7, 8, 9]);
                    txs.push(Tx {
                        ac: a as u8,
                        t_ns: ((r.t_enc + rng.frange(0.01, 0.4)) * 1e9) as u64,
                        kind,
                        odd: false,
                        sel: rng.byte(),
                    });
                }
            }
            aircraft.push(PAircraft {
                icao,
                track: g.plan.track,
                callsign: format!("SIM{}X{:03}", a, rng.below(1000)),
                squawk: [(a as u8 + 1) & 7, rng.below(8) as u8, rng.below(8) as u8, a as u8 & 7],
            });
        }
        txs.sort_by_key(|t| (t.t_ns, t.ac, t.kind));
        let t_end = txs.last().map(|t| t.t_ns).unwrap_or(0);
        // receivers
        let n_rx = *rng.pick(&[1usize, 2, 2, 3]);
        let behind_gateway = rng.chance(0.1);
        let mut receivers = Vec::new();
        let mut latency = Vec::new();
        let mut hear = Vec::new();
        for j in 0..n_rx {
            let far = j > 0 && rng.chance(0.3);
            let reference = match surface_point {
                Some((la, lo)) if far => {
                    let d = rng.frange(100.0, 400.0) * 1852.0;
                    Some(world::rhumb_step(la, lo, rng.frange(0.0, 360.0), d))
                }
                Some((la, lo)) if rng.chance(0.9) => {
                    let d = rng.frange(0.0, 30.0) * 1852.0;
                    Some(world::rhumb_step(la, lo, rng.frange(0.0, 360.0), d))
                }
                Some(_) => None,
                None => {
                    if rng.chance(0.5) {
                        Some(world::pick_start(rng))
                    } else {
                        None
                    }
                }
            };
            receivers.push(RxPlan {
                source: match if behind_gateway { 5 } else { rng.below(8) } {
                    0 => format!("tcp://192.0.2.{}:30005", 10 + j),
                    // the long forms of the configuration file (a string starting
                    // with '{' is the table as the file gives it): receivers
                    // forwarded to one gateway differ by their port only
                    5 => format!("{{\"tcp\":{{\"address\":\"localhost\",\"port\":{},\"jump\":\"gw.example\"}}}}", 30005 + j),
                    6 => format!("{{\"tcp\":{{\"address\":\"192.0.2.9\",\"port\":{}}}}}", 10003 + j),
                    7 => format!("{{\"websocket\":{{\"url\":\"ws://localhost:9876/{}\",\"jump\":\"gw.example\"}}}}", 1234 + j),
                    1 => format!("tcp://192.0.2.9:{}", 10003 + j),
                    2 => format!("udp://0.0.0.0:{}", 1234 + j),
                    // several channels of one relay: same host and port, the path differs
                    _ => format!("ws://relay.example:9876/{}", 1234 + j),
                },
                reference,
                style: *rng.pick(&[0u8, 0, 1, 1, 1, 2, 3, 4, 4, 4]),
                cut_seed: rng.next_u64(),
                stalls: Vec::new(),
                far,
                refuse_tcp: rng.chance(0.08),
                gnss_offset_ns: if rng.chance(0.5) { Some(*rng.pick(&[0i64, 0, 1_000_000, -2_000_000_000, 13_000_000_000, -17_000_000_000, 600_000_000_000])) } else { None },
            });
            latency.push(rng.range(0, 300_000_000));
            hear.push(*rng.pick(&[1.0, 0.9, 0.7, 0.5]));
        }
        let mut rcpts = Vec::new();
        let mut id = 0u32;
        let mut per_rx_count = vec![0u32; n_rx];
        for (ti, t) in txs.iter().enumerate() {
            let on_surface = aircraft[t.ac as usize].track.at(t.t_ns as f64 * 1e-9).surface;
            for j in 0..n_rx {
                if receivers[j].far && on_surface {
                    continue; // below the horizon of a distant receiver
                }
                if rng.chance(hear[j]) {
                    let delay = latency[j] + rng.range(0, 40_000_000);
                    let flip = if rng.chance(0.02) { Some(rng.below(112) as u8) } else { None };
                    rcpts.push(Rcpt { id, tx: ti as u32, rx: j as u8, delay_ns: delay, flip });
                    id += 1;
                    per_rx_count[j] += 1;
                    if rng.chance(0.03) {
                        // delivered twice by the same receiver
                        rcpts.push(Rcpt { id, tx: ti as u32, rx: j as u8, delay_ns: delay + rng.range(0, 30_000_000), flip });
                        id += 1;
                        per_rx_count[j] += 1;
                    }
                }
            }
        }
        for j in 0..n_rx {
            if rng.chance(0.35) && per_rx_count[j] > 0 {
                for _ in 0..rng.usize(1, 2) {
                    receivers[j].stalls.push((rng.below(per_rx_count[j] as u64) as u32, *rng.pick(&[20_000_000u64, 300_000_000, 600_000_000, 1_200_000_000])));
                }
                receivers[j].stalls.sort();
            }
        }
        let window_ms = *rng.pick(&[450u32, 450, 450, 50, 0, 1000]);
        let t_flush_ns = t_end + 3_000_000_000 + window_ms as u64 * 1_000_000;
        let max_stall: u64 = receivers.iter().map(|r| r.stalls.iter().map(|s| s.1).sum::<u64>()).max().unwrap_or(0);
        let session_end_ns = t_flush_ns + max_stall + n_rx as u64 * 700_000_000 + window_ms as u64 * 1_000_000 + 7_000_000_000;
        // terminal session over the same span
        let with_tui = rng.chance(0.7);
        let mut events: Vec<c17::TimedEv> = Vec::new();
        let term = if with_tui { (*rng.pick(&[1u16, 40, 80, 120, 160, 200]), *rng.pick(&[1u16, 3, 10, 24, 50])) } else { (80, 24) };
        if with_tui {
            let span = session_end_ns;
            let allow_quit = rng.chance(0.12);
            let n_keys = rng.usize(0, 40);
            for i in 0..n_keys {
                let at = if i < 2 && rng.chance(0.3) { 0 } else { rng.below(span) };
                let mut ev = c17::gen_ev(rng, true);
                if !allow_quit {
                    ev = match ev {
                        c17::Ev::Ch('q') => c17::Ev::Ch('j'),
                        c17::Ev::Esc => c17::Ev::Enter,
                        c17::Ev::Error => c17::Ev::Tick,
                        e => e,
                    };
                }
                events.push(c17::TimedEv { at_ns: at, ev });
            }
            // ticks: every 250 ms would dominate the run; 1 s is enough to redraw
            let tick = *rng.pick(&[250_000_000u64, 1_000_000_000, 5_000_000_000]);
            let mut t = 0;
            while t < span {
                events.push(c17::TimedEv { at_ns: t, ev: c17::Ev::Tick });
                t += tick;
            }
            if !allow_quit {
                // a search that is entered is left again with Enter, so that no
                // generated Esc is needed (Esc outside search mode quits)
            }
            events.sort_by_key(|e| (e.at_ns, (e.ev == c17::Ev::Tick) as u8));
        }
        let mut readers = Vec::new();
        for _ in 0..rng.usize(0, 6) {
            readers.push(rng.below(t_flush_ns + 500_000_000));
        }
        readers.sort();
        let mut holds = Vec::new();
        if rng.chance(0.4) {
            for _ in 0..rng.usize(1, 4) {
                holds.push((rng.below(t_flush_ns), *rng.pick(&[1_000u64, 1_000_000, 100_000_000, 800_000_000, 1_600_000_000, 3_000_000_000])));
            }
            holds.sort();
        }
        // a stalled terminal: draws that hold the table for seconds while the
        // queues between the tasks are short (1 run in 7)
        let stalled = rng.chance(0.15);
        if stalled {
            holds = (0..rng.usize(2, 4)).map(|_| (rng.below(t_flush_ns), *rng.pick(&[1_600_000_000u64, 3_000_000_000, 3_000_000_000]))).collect();
            holds.sort();
        }
        let sweep = if rng.chance(0.15) { (*rng.pick(&[60u32, 10]), 1u64) } else { (0, 1) };
        let n = rcpts.len() as u32;
        PipelinePlan {
            aircraft,
            txs,
            rcpts,
            receivers,
            window_ms,
            cap: if stalled { *rng.pick(&[1usize, 2]) } else { *rng.pick(&[1usize, 2, 8, 101, 301]) },
            tap: rng.chance(0.8),
            yields: rng.chance(0.5),
            store_history: rng.chance(0.8),
            term,
            events,
            readers,
            holds,
            sweep,
            t_flush_ns,
            session_end_ns,
            sched: SchedSpec::generate(rng, 40 * n + 64),
        }
    }
    fn execute(&self, plan: &PipelinePlan) -> Outcome<PipelinePlan> {
        execute(plan, self.prop)
    }
    fn shrink(&self, p: &PipelinePlan) -> Vec<PipelinePlan> {
        let mut out = Vec::new();
        if !p.holds.is_empty() {
            let mut q = p.clone();
            q.holds.clear();
            out.push(q);
        }
        if p.sweep.0 != 0 {
            let mut q = p.clone();
            q.sweep.0 = 0;
            out.push(q);
        }
        if !p.readers.is_empty() {
            let mut q = p.clone();
            q.readers.clear();
            out.push(q);
        }
        if !p.events.is_empty() {
            let mut q = p.clone();
            q.events.clear();
            out.push(q);
            let mut q = p.clone();
            q.events.retain(|e| e.ev == c17::Ev::Tick);
            out.push(q);
        }
        if p.sched.policy != 3 {
            let mut q = p.clone();
            q.sched = SchedSpec::fifo();
            out.push(q);
        }
        if p.receivers.iter().any(|r| r.style != 0 || !r.stalls.is_empty()) {
            let mut q = p.clone();
            for r in q.receivers.iter_mut() {
                r.style = 0;
                r.stalls.clear();
            }
            out.push(q);
        }
        // one receiver only
        if p.receivers.len() > 1 {
            for j in 0..p.receivers.len() {
                let mut q = p.clone();
                q.rcpts.retain(|r| r.rx as usize == j);
                out.push(q);
            }
        }
        // one aircraft less
        if p.aircraft.len() > 1 {
            for a in 0..p.aircraft.len() {
                let mut q = p.clone();
                let keep: Vec<usize> = (0..p.txs.len()).filter(|&i| p.txs[i].ac as usize != a).collect();
                let map: HashMap<usize, usize> = keep.iter().enumerate().map(|(n, &o)| (o, n)).collect();
                q.txs = keep.iter().map(|&i| p.txs[i].clone()).collect();
                q.rcpts = p
                    .rcpts
                    .iter()
                    .filter_map(|r| {
                        map.get(&(r.tx as usize)).map(|&n| {
                            let mut r = r.clone();
                            r.tx = n as u32;
                            r
                        })
                    })
                    .collect();
                // aircraft indices stay (the aircraft list is not renumbered)
                out.push(q);
            }
        }
        // drop chunks of receptions
        let n = p.rcpts.len();
        let mut chunk = n / 2;
        while chunk >= 1 && out.len() * (n + 1) < 3_000_000 {
            let mut i = 0;
            while i < n && out.len() * (n + 1) < 3_000_000 {
                let mut q = p.clone();
                q.rcpts.drain(i..(i + chunk).min(n));
                out.push(q);
                i += chunk;
            }
            if chunk == 1 {
                break;
            }
            chunk /= 2;
        }
        // drop event chunks
        let n = p.events.len();
        let mut chunk = n / 2;
        while chunk >= 1 && n > 0 && out.len() * (n + 1) < 3_000_000 {
            let mut i = 0;
            while i < n && out.len() * (n + 1) < 3_000_000 {
                let mut q = p.clone();
                q.events.drain(i..(i + chunk).min(n));
                out.push(q);
                i += chunk;
            }
            if chunk == 1 {
                break;
            }
            chunk /= 2;
        }
        if p.rcpts.iter().any(|r| r.flip.is_some()) {
            let mut q = p.clone();
            for r in q.rcpts.iter_mut() {
                r.flip = None;
            }
            out.push(q);
        }
        if p.cap != 301 {
            let mut q = p.clone();
            q.cap = 301;
            out.push(q);
        }
        if p.yields {
            let mut q = p.clone();
            q.yields = false;
            out.push(q);
        }
        out
    }
    fn meta(&self) -> Meta {
        Meta {
            level: "exploration",
            rule: "One run = one seeded air picture (1-3 aircraft with positions, identification, velocity, surveillance and Comm-B replies, Mode-AC replies) heard by 1-3 receivers through a lossy radio channel (loss, duplicates, bit flips), each receiver's Beast byte stream delivered with its own latency, chunking style (per frame, random cuts, one byte per read, bursts of 1 kB and more) and network stalls to the real beast::receiver, then through real tokio channels (capacity is a knob) to the real deduplicate_messages, main()'s decoding loop around the real decode_position/update_snapshot/store_history, with the TUI task (real update/build_table), GET /all readers (real web::all), lock-holders and the expiry sweep alongside, all tasks interleaved by the seeded scheduler on the simulated clock. Distinct = distinct hash of the ordered poll/timer/read/send/event log. Non-trivial = at least one record reached the table AND at least one fault fired (loss, duplicate, bit flip, stall, non-trivial chunking, back-pressure, lock hold, several runnable tasks at some step).",
            components: vec![
                ("Source::receiver (configured source -> BeastSource) + rs1090::source::beast::receiver (connect / bind / connect_async, TCP-refused fallback to UDP) + next_msg (TCP, UDP and websocket arms) + process_radarcape", "real (simulated sockets through hook H8, clock through hook H3)"),
                ("tokio::sync::mpsc channels (receivers -> dedup -> main loop)", "real"),
                ("jet1090::dedup::deduplicate_messages", "real"),
                ("rs1090 decode_position / Message::from_bytes", "real"),
                ("jet1090::snapshot::update_snapshot / store_history, filters::Filters::is_in", "real"),
                ("jet1090::update, table::build_table, web::all (judged), web::icao24 / sensors / track (exercised), Jet1090 behind Arc<tokio::sync::Mutex>", "real"),
                app::main_loop_component(),
                ("Source::from_str / Source::serial / sensor::sensors (serials and references per receiver, main.rs:326-333)", "real"),
                ("channel wiring and task spawning of main()", "stub (re-stated)"),
                ("aircraft, transponders, radio channel, receivers' firmware, network", "stub (simulated world, independent encoder = ground truth)"),
                ("tap between the receivers' channel and dedup (80 % of the runs)", "stub (forwarding task that records the arrival order)"),
                ("tokio runtime / scheduler / clock / terminal", "stub (seeded executor, discrete-event clock, TestBackend)"),
            ]
            .into_iter()
            .chain(super::realtui::components())
            .collect(),
            assumptions: vec![
                "connections are never closed: after end of stream beast::receiver re-polls a finished stream in a loop that never suspends (outside the listed properties, see DESIGN.md)",
                "C06 clause: a record is judged when every earlier record of the same aircraft since the last silence of 180 s was handed over within 3 s of its encoding (measured by the harness at the tap; without the tap, read from the stamp) and no wall-clock step was in effect; the references of the receivers that hear surface traffic lie within 30 NM of the surface segment (distant receivers, 100-400 NM away, hear airborne traffic only); only the first aircraft has surface segments",
                "C10 monotone clauses: judged only with the tap, when the stamps are non-decreasing in arrival order, with 1 ms of slack (stamps are arbitrary nanosecond instants here)",
                "C12 clauses: not judged in runs with the expiry sweep (entries are removed and re-created) or after an early quit",
            ],
            fault_kinds: vec![
                "radio_loss",
                "duplicate_delivery",
                "bit_flip",
                "network_stall",
                "chunk_random_cuts",
                "chunk_dribble",
                "chunk_burst_1k",
                "chunk_time_batches",
                "backpressure",
                "lock_hold",
                "reader",
                "expiry_sweep_run",
                "quit_during_traffic",
                "multi_ready_steps",
            ],
            probes: vec![
                "receptions",
                "frames_through_receiver",
                "records_from_dedup",
                "records_with_2plus_receivers",
                "positions_attached",
                "positions_checked",
                "c06_skipped_large_skew",
                "table_entries_checked",
                "all_replies_checked",
                "tui_updates",
                "tui_draws_with_rows",
                "mono_clauses_judged",
                "receptions_pending_after_last_flush",
                "big_reads",
                "escaped_1a_in_mlat",
                "undecodable_receptions",
            ],
        }
    }
    fn sample(&self, p: &PipelinePlan) -> Value {
        let mut q = p.clone();
        let (nt, nr, ne) = (q.txs.len(), q.rcpts.len(), q.events.len());
        q.txs.truncate(6);
        q.rcpts.truncate(8);
        q.events.retain(|e| e.ev != c17::Ev::Tick);
        q.events.truncate(8);
        let mut v = serde_json::to_value(&q).unwrap();
        v["txs_total"] = serde_json::json!(nt);
        v["rcpts_total"] = serde_json::json!(nr);
        v["events_total_including_ticks"] = serde_json::json!(ne);
        v
    }
}

struct RcptInfo {
    rx: usize,
    tx: usize,
    frame: Vec<u8>,
    arrive_ns: u64,
    decodable: bool,
    /// position in its receiver's wire order
    wire_pos: usize,
    flipped: bool,
}

struct Shared {
    /// (serial, reception id, frame, system stamp) in the order in which the tap
    /// received them
    /// (serial, frame, system stamp, simulated instant at the tap, wall-clock
    /// offset then) in the order in which the tap received them
    tapped_raw: Vec<(u64, Vec<u8>, f64, u64, i64)>,
    /// records in the order in which update_snapshot completed (post-decode)
    done: Vec<TimedMessage>,
    shadow_tables: Vec<String>,
    observations: Vec<(usize, String)>,
    main_loop_ended: bool,
}

const FLUSH_BASE: u32 = 0xF_FF00;

pub fn execute(plan: &PipelinePlan, prop: &'static str) -> Outcome<PipelinePlan> {
    let mut out = Outcome::new();
    out.evaluations = 1;
    out.sched_policy = plan.sched.policy_name();
    let mut sim = Sim::new(&plan.sched);
    let n_rx = plan.receivers.len();

    // ---- world -> frames -> wires ------------------------------------------
    let mut tx_frames: Vec<Option<(Vec<u8>, Option<world::TruthPoint>)>> = Vec::with_capacity(plan.txs.len());
    for t in &plan.txs {
        tx_frames.push(frame_of(plan, t));
    }
    let mut info: HashMap<u32, RcptInfo> = HashMap::new();
    let mut per_rx: Vec<Vec<(u64, u32)>> = vec![Vec::new(); n_rx]; // (arrival, id)
    let mut heard = 0u64;
    for r in &plan.rcpts {
        let Some(Some((f, _))) = tx_frames.get(r.tx as usize) else { continue };
        let j = r.rx as usize % n_rx;
        let mut frame = f.clone();
        if let Some(b) = r.flip {
            let b = b as usize % (frame.len() * 8);
            frame[b / 8] ^= 0x80 >> (b % 8);
            out.count("bit_flip", 1);
        }
        let arrive = plan.txs[r.tx as usize].t_ns + r.delay_ns;
        let decodable = Message::from_bytes((&frame, 0)).is_ok();
        if !decodable {
            out.count("undecodable_receptions", 1);
        }
        info.insert(r.id, RcptInfo { rx: j, tx: r.tx as usize, frame, arrive_ns: arrive, decodable, wire_pos: 0, flipped: r.flip.is_some() });
        per_rx[j].push((arrive, r.id));
        heard += 1;
    }
    out.count("receptions", heard);
    {
        // loss = transmissions x receivers that were not heard
        let possible = plan.txs.len() as u64 * n_rx as u64;
        out.count("radio_loss", possible.saturating_sub(plan.rcpts.len() as u64).min(possible));
        let mut seen: HashMap<(u32, u8), u32> = HashMap::new();
        for r in &plan.rcpts {
            *seen.entry((r.tx, r.rx)).or_insert(0) += 1;
        }
        out.count("duplicate_delivery", seen.values().filter(|&&c| c > 1).count() as u64);
    }
    let mut pipes = Vec::new();
    let mut read_stats = Vec::new();
    // instant of the second-stage flush: later than anything a stall can delay
    let flush2_ns = {
        let mut latest = plan.t_flush_ns;
        for j in 0..n_rx {
            let stall: u64 = plan.receivers[j].stalls.iter().map(|s| s.1).sum();
            let last = per_rx[j].iter().map(|x| x.0).max().unwrap_or(0) + stall;
            latest = latest.max(last);
        }
        latest + n_rx as u64 * 700_000_000 + plan.window_ms as u64 * 1_000_000 + 1_500_000_000
    };
    for j in 0..n_rx {
        per_rx[j].sort();
        // network stalls shift everything after them
        let rp = &plan.receivers[j];
        let mut shift = 0u64;
        let mut si = 0usize;
        let mut wire: Vec<u8> = Vec::new();
        let mut frame_ends: Vec<(u64, usize)> = Vec::new(); // (arrival, end offset)
        let mut last_at = 0u64;
        for (k, (arrive, id)) in per_rx[j].iter().enumerate() {
            while si < rp.stalls.len() && rp.stalls[si].0 as usize <= k {
                shift += rp.stalls[si].1;
                si += 1;
                out.count("network_stall", 1);
            }
            let at = (*arrive + shift).max(last_at);
            last_at = at;
            let inf = info.get_mut(id).unwrap();
            inf.arrive_ns = at;
            inf.wire_pos = k;
            let bf = beast_frame(*id, mlat_of(*id, rp.gnss_offset_ns, plan.txs[inf.tx].t_ns), &inf.frame);
            if bf[2..8].contains(&0x1a) {
                out.count("escaped_1a_in_mlat", 1);
            }
            wire.extend_from_slice(&escape(&bf));
            frame_ends.push((at, wire.len()));
        }
        // flush: a DF11 of an address nothing else uses, then a Mode-AC reply that
        // pushes it out of the 23-byte look-ahead (and stays pending itself)
        let t_flush = plan.t_flush_ns.max(last_at) + j as u64 * 700_000_000;
        let flush_id = FLUSH_BASE + j as u32;
        wire.extend_from_slice(&escape(&beast_frame(flush_id, mlat_of(flush_id, None, 0), &world::df11(0xFF_FFF0 + j as u32, 7))));
        wire.extend_from_slice(&escape(&beast_frame(flush_id + 0x40, mlat_of(flush_id + 0x40, None, 0), &[0x21, 0x43])));
        frame_ends.push((t_flush, wire.len()));
        // chunking
        let mut crng = Rng::new(rp.cut_seed);
        let mut chunks: Vec<(u64, usize)> = Vec::new();
        let wire_len = wire.len();
        let at_of = |off: usize| -> u64 {
            // a byte is readable when the frame it belongs to has arrived
            frame_ends.iter().find(|(_, e)| off < *e).map(|(a, _)| *a).unwrap_or(t_flush)
        };
        let mut read_cap = 0usize;
        match rp.style {
            1 => {
                out.count("chunk_random_cuts", 1);
                let mean = *crng.pick(&[5usize, 12, 30, 100]);
                let mut off = 0usize;
                while off < wire_len {
                    let n = crng.usize(1, 2 * mean);
                    let end = (off + n).min(wire_len);
                    chunks.push((at_of(end - 1), end));
                    off = end;
                }
            }
            2 => {
                out.count("chunk_dribble", 1);
                read_cap = 1;
                for (a, e) in &frame_ends {
                    chunks.push((*a, *e));
                }
            }
            3 => {
                out.count("chunk_burst_1k", 1);
                let mut off = 0usize;
                while off < wire_len {
                    let n = crng.usize(1024, 3000);
                    let end = (off + n).min(wire_len);
                    chunks.push((at_of(end - 1), end));
                    off = end;
                }
            }
            4 => {
                out.count("chunk_time_batches", 1);
                let iv = *crng.pick(&[50_000_000u64, 200_000_000, 1_000_000_000, 2_000_000_000]);
                for (a, e) in &frame_ends {
                    let at = (*a / iv + 1) * iv;
                    match chunks.last_mut() {
                        Some(c) if c.0 == at => c.1 = *e,
                        _ => chunks.push((at, *e)),
                    }
                }
            }
            _ => {
                for (a, e) in &frame_ends {
                    chunks.push((*a, *e));
                }
            }
        }
        // arrival instants must be non-decreasing
        let mut m = 0u64;
        for c in chunks.iter_mut() {
            m = m.max(c.0);
            c.0 = m;
        }
        if j == 0 {
            // second stage, on the first receiver only, always in a chunk of its
            // own: whatever the chunking delayed until the first flush (and was
            // therefore stamped at that instant) has its window closed by this one
            wire.extend_from_slice(&escape(&beast_frame(flush_id + 0x80, mlat_of(flush_id + 0x80, None, 0), &world::df11(0xFF_FFE0, 7))));
            wire.extend_from_slice(&escape(&beast_frame(flush_id + 0xC0, mlat_of(flush_id + 0xC0, None, 0), &[0x21, 0x44])));
            chunks.push((flush2_ns.max(m), wire.len()));
        }
        let reads = Arc::new(std::sync::Mutex::new((0u64, 0u64, 0u64)));
        read_stats.push(reads.clone());
        pipes.push(TimedPipe { data: Arc::new(wire), chunks, ci: 0, pos: 0, read_cap, reads });
    }

    // ---- the system ------------------------------------------------------------
    let cap = plan.cap.max(1);
    let (tx_in, rx_in) = tokio::sync::mpsc::channel::<TimedMessage>(cap);
    let (tx_dedup, rx_dedup) = tokio::sync::mpsc::channel::<TimedMessage>(cap);
    let shared = Rc::new(RefCell::new(Shared {
        tapped_raw: Vec::new(),
        done: Vec::new(),
        shadow_tables: Vec::new(),
        observations: Vec::new(),
        main_loop_ended: false,
    }));
    let bp = Rc::new(RefCell::new(0u64));
    // sources, sensors and references as main() sets them up (main.rs:326-333)
    let mut references: BTreeMap<u64, Option<Position>> = BTreeMap::new();
    let mut sensors_map: BTreeMap<u64, crate::sensor::Sensor> = BTreeMap::new();
    let mut serial_of: Vec<u64> = Vec::new();
    let mut sources: Vec<crate::source::Source> = Vec::new();
    let mut texts: Vec<String> = Vec::new();
    for (j, rp) in plan.receivers.iter().enumerate() {
        use std::str::FromStr;
        let text = if rp.source.is_empty() { format!("tcp://192.0.2.{}:30005", 10 + j) } else { rp.source.clone() };
        let parsed = if text.starts_with('{') {
            serde_json::from_str::<crate::source::Source>(&text).map_err(|e| e.to_string())
        } else {
            crate::source::Source::from_str(&text).map_err(|e| e.to_string())
        };
        let mut source = match parsed {
            Ok(s) => s,
            Err(e) => {
                out.harness_error = Some(format!("source {} rejected: {}", text, e));
                return out;
            }
        };
        source.name = Some(format!("rx{}", j));
        source.reference = rp.reference.map(|(la, lo)| Position { latitude: la, longitude: lo });
        serial_of.push(source.serial());
        for sensor in app::now_or_never(crate::sensor::sensors(&source)).expect("sensors() of a plain source does not suspend") {
            references.insert(sensor.serial, sensor.reference);
            sensors_map.insert(sensor.serial, sensor);
        }
        sources.push(source);
        texts.push(text);
    }
    // the receivers as main() starts them (main.rs: `source.receiver(tx_copy,
    // serial, source.name.clone())`): the real Source::receiver maps the
    // configured source to a BeastSource, the real beast::receiver connects /
    // binds on the simulated network (hook H8) and reads through the arm of
    // next_msg that belongs to the transport
    {
        use rs1090::source::verif_net::{self, Peer};
        verif_net::clear();
        for (j, (pipe, source)) in pipes.into_iter().zip(sources.into_iter()).enumerate() {
            let token = address_token(j, &texts);
            if token.is_empty() || texts.iter().enumerate().any(|(k, o)| k != j && address_forms(o).contains(token.as_str())) {
                // no piece of the configured address tells this receiver from
                // the others: hand the byte stream over directly (hook H2)
                out.count("transport_h2_direct", 1);
                let txj = tx_in.clone();
                let serial = serial_of[j];
                sim.spawn("beast::receiver(real)", async move {
                    let src = rs1090::source::beast::BeastSource::Verif(rs1090::source::beast::DataSource::Verif(Box::pin(pipe)));
                    let _ = rs1090::source::beast::receiver(src, txj, serial, Some(format!("rx{}", j))).await;
                });
                continue;
            }
            let key = format!("~{}", token);
            let as_datagrams = |p: TimedPipe| TimedDatagrams { data: p.data, chunks: p.chunks, ci: 0, pos: 0, reads: p.reads };
            match (scheme_of(&texts[j]), plan.receivers[j].refuse_tcp) {
                ("udp", _) => {
                    out.count("transport_udp", 1);
                    verif_net::register(&key, Peer::Udp(Box::pin(as_datagrams(pipe))));
                }
                ("ws", _) => {
                    out.count("transport_websocket", 1);
                    let (w, c) = websocket_plan(&pipe.data, &pipe.chunks);
                    verif_net::register(&key, Peer::Websocket(Box::pin(TimedPipe { data: Arc::new(w), chunks: c, ci: 0, pos: 0, read_cap: pipe.read_cap, reads: pipe.reads })));
                }
                ("tcp", true) => {
                    out.count("transport_tcp_refused_then_udp", 1);
                    verif_net::register(&key, Peer::TcpRefused(std::io::ErrorKind::ConnectionRefused));
                    verif_net::register(&key, Peer::Udp(Box::pin(as_datagrams(pipe))));
                }
                _ => {
                    out.count("transport_tcp", 1);
                    verif_net::register(&key, Peer::Tcp(Box::pin(pipe)));
                }
            }
            let txj = tx_in.clone();
            let serial = serial_of[j];
            sim.spawn("Source::receiver -> beast::receiver(real)", async move {
                source.receiver(txj, serial, source.name.clone()).await;
            });
        }
    }
    drop(tx_in);
    let rx_for_dedup = if plan.tap {
        let (tx_tap, rx_tap) = tokio::sync::mpsc::channel::<TimedMessage>(1);
        let sh = shared.clone();
        let bp = bp.clone();
        let mut rx_in = rx_in;
        sim.spawn("tap(stub)", async move {
            while let Some(m) = rx_in.recv().await {
                if let Some(md) = m.metadata.first() {
                    let mut fh = Fnv::new();
                    fh.bytes(&m.frame);
                    exec::log_u64(0x7A00_0000_0000 ^ fh.0);
                    exec::trace(|| format!("tap: serial={} frame={} stamp={:.6}", md.serial, world::hex(&m.frame), m.timestamp - exec::EPOCH_S as f64));
                    sh.borrow_mut().tapped_raw.push((md.serial, m.frame.clone(), m.timestamp, exec::now_ns(), exec::wall_offset_ns()));
                }
                if tx_tap.capacity() == 0 {
                    *bp.borrow_mut() += 1;
                }
                if tx_tap.send(m).await.is_err() {
                    break;
                }
            }
        });
        rx_tap
    } else {
        rx_in
    };
    let window = plan.window_ms;
    sim.spawn("dedup(real)", async move {
        crate::dedup::deduplicate_messages(rx_for_dedup, tx_dedup, window).await;
    });

    let app = Arc::new(Mutex::new(app::new_app(plan.term.0)));
    app.try_lock().unwrap().sensors = sensors_map;
    let shadow = Arc::new(Mutex::new(app::new_app(plan.term.0)));
    let main_task = {
        let sh = shared.clone();
        let shadow = shadow.clone();
        let hooks = app::LoopHooks {
            after_update: Box::new(move |n, msg| {
                exec::log_u64(0x0D00_0000 | n as u64);
                exec::trace(|| format!("main loop: record #{} frame={} ts={:.6} members={:?}", n, world::hex(&msg.frame), msg.timestamp - exec::EPOCH_S as f64, msg.metadata.iter().map(|m| (m.serial, m.nanoseconds)).collect::<Vec<_>>()));
                let mut m2 = app::clone_tm(msg);
                let db = BTreeMap::new();
                app::now_or_never(crate::snapshot::update_snapshot(&shadow, &mut m2, &db)).expect("shadow update never completed");
                let t = c12::table_text(&shadow.try_lock().expect("shadow is private"));
                let mut s = sh.borrow_mut();
                s.shadow_tables.push(t);
                s.done.push(app::clone_tm(msg));
            }),
            after_history: Box::new(|_| {}),
            yields: plan.yields,
            store_history: plan.store_history,
        };
        let app = app.clone();
        let sh2 = shared.clone();
        sim.spawn("main-loop+decode_position/update_snapshot/store_history(real)", async move {
            app::main_loop(rx_dedup, app, references, hooks).await;
            sh2.borrow_mut().main_loop_ended = true;
        })
    };
    // TUI
    let tui_shared = Rc::new(RefCell::new(c17::Shared::new()));
    super::realtui::reset();
    let tui_task = if !plan.events.is_empty() {
        Some(c17::spawn_tui(&mut sim, &app, &plan.events, plan.term.0, plan.term.1, &tui_shared))
    } else {
        None
    };
    let real_expiry = plan.sweep.0 > 0 && super::realtui::expiry_available();
    if real_expiry {
        super::realtui::spawn_expiry(&mut sim, &app, plan.sweep.1);
    } else if plan.sweep.0 > 0 {
        c17::spawn_sweep(&mut sim, &app, plan.sweep.0, plan.sweep.1, plan.t_flush_ns + 2_000_000_000, &tui_shared);
    }
    // readers
    for &at in &plan.readers {
        let app = app.clone();
        let sh = shared.clone();
        sim.spawn("GET /all (web::all real)", async move {
            exec::sleep_until_ns(at).await;
            let reply = crate::web::all(&app).await.unwrap();
            let n_done = sh.borrow().done.len();
            let resp = reply.into_response();
            let bytes = warp::hyper::body::to_bytes(resp.into_body()).await.unwrap();
            exec::log_u64(0x0B00_0000 | n_done as u64);
            sh.borrow_mut().observations.push((n_done, String::from_utf8_lossy(&bytes).to_string()));
        });
    }
    // the other REST handlers share the mutex: exercised (a panic or a lock that is
    // never released would show), their replies are not judged
    for (k, &at) in plan.readers.iter().enumerate() {
        let app = app.clone();
        let icao = plan.aircraft[k % plan.aircraft.len()].icao;
        let kind = k % 3;
        sim.spawn("GET /, /sensors, /track (web::* real)", async move {
            exec::sleep_until_ns(at.saturating_add(1_000_000)).await;
            let reply = match kind {
                0 => crate::web::icao24(&app).await.unwrap(),
                1 => crate::web::sensors(&app).await.unwrap(),
                _ => {
                    let q: crate::web::TrackQuery = serde_json::from_value(serde_json::json!({"icao24": format!("{:06x}", icao), "since": if at % 2 == 0 { serde_json::Value::Null } else { serde_json::json!(exec::now_unix_f64() - 30.0) }})).expect("track query");
                    crate::web::track(&app, q).await.unwrap()
                }
            };
            let resp = reply.into_response();
            let bytes = warp::hyper::body::to_bytes(resp.into_body()).await.unwrap();
            exec::log_u64(0x0C00_0000 | (bytes.len() as u64 & 0xFFFF));
        });
    }
    if !plan.holds.is_empty() {
        let app_h = app.clone();
        let holds = plan.holds.clone();
        sim.spawn("lock-holder(stub)", async move {
            for (at, dur) in holds {
                exec::sleep_until_ns(at).await;
                let g = app_h.lock().await;
                exec::sleep_ns(dur).await;
                drop(g);
            }
        });
    }

    let total_bytes: u64 = 40 * heard + 200;
    let step_cap = 20_000 + 60 * total_bytes + 60 * plan.events.len() as u64 + 16 * (plan.session_end_ns.max(plan.t_flush_ns) / 250_000_000);
    let mut multi = 0u64;
    let mut last_choice = 0u64;
    let session_end = plan.session_end_ns.max(plan.t_flush_ns) + 10_000_000_000;
    let end = sim.run(step_cap, |s, id, done| {
        if s.choice_points > last_choice {
            multi += s.choice_points - last_choice;
            last_choice = s.choice_points;
        }
        // the endless tasks of the terminal side (reader, expiry) end with the
        // session, as the process would exit
        if (done && Some(id) == tui_task) || (tui_task.is_none() && exec::now_ns() > session_end) {
            super::realtui::cancel_endless(s);
        }
        true
    });
    out.steps = sim.steps;
    out.sim_ns = exec::now_ns();

    // ---- oracles ---------------------------------------------------------------
    let mut viols: Vec<Violation> = Vec::new();
    for p in &sim.panics {
        if p.file.contains("/verif/") || p.env_limit() {
            out.harness_error = Some(format!("driver panic in task {} at {}:{}: {}", p.task, p.file, p.line, p.msg));
        } else {
            // attribute the panic to the property whose component died
            let cls = if p.task.contains("beast::receiver") {
                "c09.5-panic"
            } else if p.task.starts_with("dedup") {
                "c10.panic"
            } else if p.task.starts_with("tui-loop") {
                "c17.1-panic"
            } else if p.file.contains("cpr.rs") {
                "c06.4-panic"
            } else {
                "c12.6-panic"
            };
            viols.push(Violation::new(cls, p.short_loc(), format!("pipeline: task {} panicked at {}:{}: {}", p.task, p.file, p.line, p.msg)));
        }
    }
    let sh = shared.borrow();
    let tsh = tui_shared.borrow();
    let quit_early = sh.main_loop_ended;
    if quit_early {
        out.count("quit_during_traffic", 1);
    }
    let complete = end == RunEnd::Quiescent && sim.panics.is_empty() && !quit_early;
    if end == RunEnd::StepCap {
        let v = format!("pipeline: no quiescence within {} steps; live tasks: {:?}", step_cap, sim.live_tasks());
        for c in ["c09.liveness", "c10.liveness", "c12.6-liveness", "c17.4-liveness"] {
            viols.push(Violation::new(c, "step-cap", v.clone()));
        }
    }
    let epoch = exec::EPOCH_S as f64;

    // Which reception is which: a reception is identified by the receiver that
    // heard it (the serial on its metadata), the frame, and its rank among that
    // receiver's receptions of that frame (each receiver's stream is handed on in
    // order). Nothing else of the metadata is relied upon.
    let build_queues = || -> HashMap<(u64, Vec<u8>), std::collections::VecDeque<u32>> {
        let mut q: HashMap<(u64, Vec<u8>), std::collections::VecDeque<u32>> = HashMap::new();
        for j in 0..n_rx {
            for (_, id) in per_rx[j].iter() {
                q.entry((serial_of[j], info[id].frame.clone())).or_default().push_back(*id);
            }
            q.entry((serial_of[j], world::df11(0xFF_FFF0 + j as u32, 7))).or_default().push_back(FLUSH_BASE + j as u32);
            q.entry((serial_of[j], vec![0x21, 0x43])).or_default().push_back(FLUSH_BASE + 0x40 + j as u32);
            if j == 0 {
                q.entry((serial_of[j], world::df11(0xFF_FFE0, 7))).or_default().push_back(FLUSH_BASE + 0x80);
                q.entry((serial_of[j], vec![0x21, 0x44])).or_default().push_back(FLUSH_BASE + 0xC0);
            }
        }
        q
    };
    let mut q_tap = build_queues();
    let mut tapped: Vec<(u64, u32, Vec<u8>, f64)> = Vec::new();
    let mut tap_time: HashMap<u32, (u64, i64)> = HashMap::new();
    for (serial, frame, stamp, t_tap, off) in sh.tapped_raw.iter() {
        // (u32::MAX - 1: handed on by a receiver, but not one of its frames)
        let id = q_tap.get_mut(&(*serial, frame.clone())).and_then(|d| d.pop_front()).unwrap_or(u32::MAX - 1);
        tapped.push((*serial, id, frame.clone(), *stamp));
        tap_time.insert(id, (*t_tap, *off));
    }

    // -- C09 at the tap: per receiver, exactly the frames of its wire, in order, unmodified
    if plan.tap {
        out.count("frames_through_receiver", tapped.len() as u64);
        for j in 0..n_rx {
            let got: Vec<&(u64, u32, Vec<u8>, f64)> = tapped.iter().filter(|t| t.0 == serial_of[j]).collect();
            let want: Vec<u32> = per_rx[j].iter().map(|x| x.1).collect();
            let mut prev_stamp = 0.0f64;
            for (k, g) in got.iter().enumerate() {
                if g.1 >= FLUSH_BASE {
                    continue;
                }
                match want.get(k) {
                    Some(w) if *w == g.1 => {
                        let inf = &info[w];
                        if g.2 != inf.frame {
                            viols.push(Violation::new(
                                "c09.1-prefix",
                                "item-differs",
                                format!("pipeline: receiver {} handed on frame {} for reception #{} whose wire frame is {}", j, world::hex(&g.2), w, world::hex(&inf.frame)),
                            ));
                            break;
                        }
                        if g.3 + 1e-6 < epoch + inf.arrive_ns as f64 * 1e-9 {
                            viols.push(Violation::new("c09.1-prefix", "before-arrival", format!("pipeline: reception #{} stamped {:.6} before its bytes arrived at {:.6}", w, g.3 - epoch, inf.arrive_ns as f64 * 1e-9)));
                            break;
                        }
                        if g.3 < prev_stamp {
                            viols.push(Violation::new("c09.1-prefix", "stamps-decrease", format!("pipeline: receiver {} stamped reception #{} earlier than the previous one", j, w)));
                            break;
                        }
                        prev_stamp = g.3;
                    }
                    other => {
                        viols.push(Violation::new(
                            "c09.1-prefix",
                            "item-differs",
                            format!("pipeline: receiver {} handed on reception #{} at position {}, its wire has {:?} there", j, g.1, k, other),
                        ));
                        break;
                    }
                }
            }
            if complete {
                let n_got = got.iter().filter(|g| g.1 < FLUSH_BASE).count();
                if n_got < want.len() {
                    viols.push(Violation::new(
                        "c09.2-pending",
                        "after-all-bytes",
                        format!("pipeline: receiver {} was sent {} frames followed by the flush frames, only {} were handed on", j, want.len(), n_got),
                    ));
                }
            }
        }
    }

    // -- receivers must be distinguishable: a reception is attributed to a sensor by its serial
    for a in 0..n_rx {
        for b in a + 1..n_rx {
            if serial_of[a] == serial_of[b] {
                viols.push(Violation::new(
                    "c10.2-content",
                    "receivers-indistinguishable",
                    format!("pipeline: the sources {:?} and {:?} are given the same serial number {}: the receptions listed in a record cannot be attributed to the receiver that heard them", plan.receivers[a].source, plan.receivers[b].source, serial_of[a]),
                ));
            }
        }
    }

    // -- C10 on the records that left dedup (= the records the main loop processed)
    let mut seen: HashMap<u32, usize> = HashMap::new();
    let tap_pos: HashMap<u32, usize> = tapped.iter().enumerate().map(|(i, t)| (t.1, i)).collect();
    let mut q_rec = build_queues();
    // reception ids of the members of every record, in the order listed
    let mut rec_ids: Vec<Vec<u32>> = Vec::new();
    let mut multi_rx_records = 0u64;
    for (k, m) in sh.done.iter().enumerate() {
        let ids: Vec<u32> = m
            .metadata
            .iter()
            .map(|md| match q_rec.get_mut(&(md.serial, m.frame.clone())) {
                Some(d) => d.pop_front().unwrap_or(u32::MAX - 2), // listed more often than heard
                None => u32::MAX - 1,                             // never heard by that receiver
            })
            .collect();
        rec_ids.push(ids.clone());
        if ids.is_empty() {
            viols.push(Violation::new("c10.1-conservation", "empty-record", format!("pipeline: record #{} carries no reception", k)));
            continue;
        }
        let mut rxs: Vec<u64> = m.metadata.iter().map(|md| md.serial).collect();
        rxs.sort();
        rxs.dedup();
        if rxs.len() > 1 {
            multi_rx_records += 1;
        }
        for (i, id) in ids.iter().enumerate() {
            if *id >= FLUSH_BASE {
                continue;
            }
            match info.get(id) {
                None if *id == u32::MAX - 2 => viols.push(Violation::new("c10.1-conservation", "duplicated", format!("pipeline: record #{} lists a reception of frame {} by sensor {} once more than that receiver heard it", k, world::hex(&m.frame), m.metadata[i].serial))),
                None => viols.push(Violation::new("c10.1-conservation", "invented", format!("pipeline: record #{} lists a reception of frame {} by sensor {}, which never heard that frame", k, world::hex(&m.frame), m.metadata[i].serial))),
                Some(inf) => {
                    if inf.frame != m.frame {
                        viols.push(Violation::new("c10.2-content", "frame-mismatch", format!("pipeline: record #{} has frame {} but its member #{} was received as {}", k, world::hex(&m.frame), id, world::hex(&inf.frame))));
                    }
                    if m.metadata[i].serial != serial_of[inf.rx] {
                        viols.push(Violation::new("c10.2-content", "wrong-receiver", format!("pipeline: record #{} attributes reception #{} to sensor {} (it was heard by {})", k, id, m.metadata[i].serial, serial_of[inf.rx])));
                    }
                    if !inf.decodable {
                        out.count("undecodable_frame_emitted", 1);
                    }
                }
            }
            if let Some(prev) = seen.insert(*id, k) {
                viols.push(Violation::new("c10.1-conservation", "duplicated", format!("pipeline: reception id {} appears in records #{} and #{}", id, prev, k)));
            }
        }
        if m.timestamp != m.metadata[0].system_timestamp {
            viols.push(Violation::new("c10.2-content", "timestamp-not-first-arrival", format!("pipeline: record #{} has timestamp {:.6}, its first member was stamped {:.6}", k, m.timestamp - epoch, m.metadata[0].system_timestamp - epoch)));
        }
        if plan.tap {
            // members in arrival order
            let pos: Vec<usize> = ids.iter().filter_map(|id| tap_pos.get(id).copied()).collect();
            if pos.windows(2).any(|w| w[0] > w[1]) {
                viols.push(Violation::new("c10.2-content", "member-order", format!("pipeline: record #{} lists its receptions {:?} out of arrival order", k, ids)));
            }
        }
    }
    out.count("records_from_dedup", sh.done.len() as u64);
    out.count("records_with_2plus_receivers", multi_rx_records);
    if complete && plan.tap {
        // Every decodable reception whose window was closed by a later arrival has
        // left dedup. "Closed" is read off the arrival order and the stamps the
        // tap saw: a reception stamped s belongs to a group opened at or before s,
        // so any LATER arrival stamped at or after s + window has closed it. (The
        // flush arrivals normally do that for everything; under heavy
        // back-pressure a receiver may hand over — and stamp — an old frame after
        // the last flush, and that frame legitimately stays pending.)
        let w_ms = plan.window_ms as i64;
        let ms = |t: f64| (t * 1e3) as i64;
        // suffix maximum of the stamps in arrival order
        let n = tapped.len();
        let mut later_max = vec![i64::MIN; n + 1];
        for k in (0..n).rev() {
            later_max[k] = later_max[k + 1].max(ms(tapped[k].3));
        }
        let mut lost: Vec<u32> = Vec::new();
        for (k, t) in tapped.iter().enumerate() {
            let id = t.1;
            let Some(inf) = info.get(&id) else { continue };
            if inf.decodable && !seen.contains_key(&id) && later_max[k + 1] >= ms(t.3) + w_ms + 1 {
                lost.push(id);
            }
        }
        out.count("receptions_pending_after_last_flush", info.iter().filter(|(i, f)| f.decodable && !seen.contains_key(i)).count() as u64 - lost.len() as u64);
        if let Some(&l) = lost.iter().min() {
            let li = &info[&l];
            viols.push(Violation::new(
                "c10.1-conservation",
                "lost",
                format!("pipeline: decodable reception #{} (receiver {}, frame {}, arrived {:.3} s) never left the deduplication although a later arrival closed its window", l, li.rx, world::hex(&li.frame), li.arrive_ns as f64 * 1e-9),
            ));
        }
    }
    if plan.tap {
        let stamps: Vec<f64> = tapped.iter().map(|t| t.3).collect();
        let monotone = stamps.windows(2).all(|w| w[0] <= w[1]);
        if monotone {
            out.count("mono_clauses_judged", 1);
            let w = plan.window_ms as i64;
            let ms = |t: f64| (t * 1e3) as i64;
            let mut last_first: HashMap<&Vec<u8>, i64> = HashMap::new();
            let mut prev: Option<i64> = None;
            for (k, m) in sh.done.iter().enumerate() {
                let f = ms(m.timestamp);
                if let Some(p) = last_first.get(&m.frame) {
                    if f + 1 < p + w {
                        viols.push(Violation::new("c10.4-window", "same-frame-closer-than-window", format!("pipeline: records of frame {} have first arrivals {} ms apart, window {} ms (record #{})", world::hex(&m.frame), f - p, w, k)));
                    }
                }
                last_first.insert(&m.frame, f);
                if let Some(p) = prev {
                    if f + 1 < p {
                        viols.push(Violation::new("c10.4-window", "out-of-first-arrival-order", format!("pipeline: record #{} (first arrival {} ms) left after a record with first arrival {} ms", k, f, p)));
                    }
                }
                prev = Some(f);
            }
        }
    }

    // -- C06 on the positions the main loop attached
    {
        // A record is judged when every earlier record of the same aircraft
        // since the last silence of 180 s or more (after which nothing of the
        // decoder's state is used any more) was stamped within 3 s of its
        // encoding: latency, stalls, batching and back-pressure are measured
        // per run, and a report stamped long after it was encoded is outside
        // the property's "locally swapped timestamps".
        let mut clean: HashMap<u32, (bool, f64)> = HashMap::new(); // icao -> (session clean, last stamp)
        for (k, m) in sh.done.iter().enumerate() {
            let Some(id) = rec_ids.get(k).and_then(|v| v.first().copied()) else { continue };
            let Some(inf) = info.get(&id) else { continue };
            let txp = &plan.txs[inf.tx];
            if txp.kind != 0 || inf.flipped {
                continue;
            }
            let icao = plan.aircraft[txp.ac as usize % plan.aircraft.len()].icao;
            // delay between encoding and hand-over, measured by the harness at the
            // tap (not read from the stamp the code under test put on the record:
            // a wrong stamp is the system's doing and its consequences are judged);
            // a wall-clock step in effect counts as a timing fault of its own.
            // Without the tap the stamp is all there is.
            let timing_ok = match tap_time.get(&id) {
                Some((t_tap, off)) => *off == 0 && t_tap.saturating_sub(txp.t_ns) <= 3_000_000_000,
                None => {
                    let skew = (m.timestamp - epoch) - txp.t_ns as f64 * 1e-9;
                    skew >= -0.001 && skew <= 3.0
                }
            };
            // sessions are delimited on the time line the decoder sees (its state
            // is aged with the stamps of the records)
            let e = clean.entry(icao).or_insert((true, m.timestamp));
            if m.timestamp - e.1 >= 180.0 {
                e.0 = true;
            }
            e.1 = e.1.max(m.timestamp);
            if !timing_ok {
                e.0 = false;
            }
            let session_clean = e.0;
            let me = match m.message.as_ref().map(|x| &x.df) {
                Some(ExtendedSquitterADSB(adsb)) => Some(&adsb.message),
                Some(ExtendedSquitterTisB { cf, .. }) => Some(&cf.me),
                _ => None,
            };
            let ll = match me {
                Some(ME::BDS05(p)) => Some((p.latitude, p.longitude)),
                Some(ME::BDS06(p)) => Some((p.latitude, p.longitude)),
                _ => None,
            };
            match ll {
                Some((Some(la), Some(lo))) => {
                    out.count("positions_attached", 1);
                    if !session_clean {
                        out.count("c06_skipped_large_skew", 1);
                        continue;
                    }
                    let Some(Some((_, Some(truth)))) = tx_frames.get(inf.tx) else { continue };
                    out.count("positions_checked", 1);
                    let d = world::gc_dist_m(la, lo, truth.lat, truth.lon);
                    if !(d <= 25.0) {
                        viols.push(Violation::new(
                            "c06.1-wrong-position",
                            format!("pipeline/{}", if truth.surface { "surface" } else { "airborne" }),
                            format!("pipeline: record #{} of aircraft {:06x} was given ({:.5}, {:.5}) but the aircraft was at ({:.5}, {:.5}) when the report was encoded: {:.0} m off", k, icao, la, lo, truth.lat, truth.lon, d),
                        ));
                        break;
                    }
                }
                Some((a, b)) if a.is_some() != b.is_some() => {
                    viols.push(Violation::new("c06.1-wrong-position", "half-position", format!("pipeline: record #{} has only one of latitude/longitude", k)));
                }
                _ => {}
            }
        }
    }

    // -- C12 on the table
    let sweep_ran = tsh.counters.get("expired_by_sweep").copied().unwrap_or(0) > 0 || (real_expiry && out.sim_ns > 60_000_000_000);
    if plan.sweep.0 > 0 {
        out.count("expiry_sweep_run", 1);
    }
    if !sweep_ran {
        match app.try_lock() {
            Ok(g) => {
                let final_table = c12::table_json(&g);
                drop(g);
                let mut v: Option<Violation> = None;
                let mut entries = 0u64;
                c12::judge_final_table(&sh.done, &app, &final_table, &mut |k, n| {
                    if k == "entries_checked" {
                        entries += n;
                    }
                }, &mut v);
                out.count("table_entries_checked", entries);
                if let Some(mut v) = v {
                    v.detail = format!("pipeline: {}", v.detail);
                    viols.push(v);
                }
                if let (Some(last), Ok(g)) = (sh.shadow_tables.last(), app.try_lock()) {
                    if *last != c12::table_text(&g) {
                        viols.push(Violation::new("c12.5-atomic", "final-table", "pipeline: the final table differs from the one obtained by applying the same records sequentially".to_string()));
                    }
                }
            }
            Err(_) => viols.push(Violation::new("c12.6-liveness", "mutex-still-held", "pipeline: the application mutex is still held at the end of the run".to_string())),
        }
        for (n_done, body) in sh.observations.iter() {
            out.count("all_replies_checked", 1);
            let want = if *n_done == 0 { "[]".to_string() } else { sh.shadow_tables[*n_done - 1].clone() };
            if *body != want && c12::canonical_all(body) != c12::canonical_all(&want) {
                let next = sh.shadow_tables.get(*n_done);
                // (the record in flight may already be visible, completely)
                if next.map_or(false, |n| c12::canonical_all(n) == c12::canonical_all(body)) {
                    continue;
                }
                let loc = "half-applied-or-foreign-state";
                let b: Value = serde_json::from_str(body).unwrap_or(Value::Null);
                let w: Value = serde_json::from_str(&want).unwrap_or(Value::Null);
                viols.push(Violation::new("c12.5-atomic", loc, format!("pipeline: an /all reply taken after {} completed updates differs from the sequential table: reply {} vs sequential {}", n_done, c12::first_diff_entry(&b, &w), c12::first_diff_entry(&w, &b))));
                break;
            }
        }
    }
    if complete && end == RunEnd::Quiescent && !sim.is_done(main_task) {
        // fine: the main loop waits for more records
    }

    // -- C17 from the TUI task's own oracle
    if let Some(v) = &tsh.viol {
        if v.class == "harness" {
            out.harness_error = Some(v.detail.clone());
        } else {
            let mut v = v.clone();
            v.detail = format!("pipeline: {}", v.detail);
            viols.push(v);
        }
    }
    if let Some(t) = tui_task {
        if end == RunEnd::Quiescent && sim.panics.is_empty() && tsh.viol.is_none() && !tsh.tui_ended && !sim.is_done(t) {
            viols.push(Violation::new("c17.4-liveness", "tui-did-not-end", "pipeline: the system is idle but the TUI loop never ended".to_string()));
        }
    }
    out.count("tui_updates", tsh.counters.get("updates").copied().unwrap_or(0));
    out.count("tui_draws_with_rows", tsh.counters.get("draws_with_rows").copied().unwrap_or(0));
    out.count("lock_hold", plan.holds.len() as u64);
    out.count("reader", plan.readers.len() as u64);
    out.count("backpressure", *bp.borrow());
    out.count("multi_ready_steps", multi);
    let mut big = 0;
    for r in &read_stats {
        big += r.lock().unwrap().1;
    }
    out.count("big_reads", big);

    // ---- signature -----------------------------------------------------------
    let mut sig = Fnv::new();
    sig.u64(exec::log_hash());
    out.sigs.push(sig.0);
    let faulty = plan.rcpts.iter().any(|r| r.flip.is_some())
        || plan.receivers.iter().any(|r| r.style != 0 || !r.stalls.is_empty())
        || !plan.holds.is_empty()
        || multi > 0
        || *bp.borrow() > 0;
    if faulty && !sh.done.is_empty() {
        out.nontrivial_sigs.push(sig.0);
    }
    out.log_hash = {
        let mut f = Fnv::new();
        f.u64(exec::log_hash());
        for m in sh.done.iter() {
            f.bytes(&m.frame);
            f.u64(m.timestamp.to_bits());
            f.u64(m.metadata.len() as u64);
        }
        f.u64(sh.observations.len() as u64);
        f.u64(viols.len() as u64);
        f.0
    };
    {
        let mut f = Fnv::new();
        f.u64(sh.done.len() as u64);
        if let Ok(g) = app.try_lock() {
            f.u64(g.state_vectors.len() as u64);
            f.u64(g.items.len() as u64);
        }
        out.oracle_states.push(f.0);
    }
    let pfx = prop.to_ascii_lowercase();
    out.violation = viols.into_iter().find(|v| v.class.starts_with(&pfx));
    out
}
