// Root of `mod verif` inside the jet1090 unit-test binary (hook H4).
// Deterministic simulation with fault injection for xoolive/rs1090.
// The sub-modules are included by path from the directory given at build time.

#[allow(dead_code)]
mod rng {
    include!(concat!(env!("XOOLIVE_RS1090_VERIF_DIR"), "/rng.rs"));
}
#[allow(dead_code)]
mod exec {
    include!(concat!(env!("XOOLIVE_RS1090_VERIF_DIR"), "/exec.rs"));
}
#[allow(dead_code)]
mod batch {
    include!(concat!(env!("XOOLIVE_RS1090_VERIF_DIR"), "/batch.rs"));
}
#[allow(dead_code)]
mod world {
    include!(concat!(env!("XOOLIVE_RS1090_VERIF_DIR"), "/world.rs"));
}
#[allow(dead_code)]
mod c10 {
    include!(concat!(env!("XOOLIVE_RS1090_VERIF_DIR"), "/c10.rs"));
}

#[allow(dead_code)]
mod c09 {
    include!(concat!(env!("XOOLIVE_RS1090_VERIF_DIR"), "/c09.rs"));
}

#[allow(dead_code)]
mod c06 {
    include!(concat!(env!("XOOLIVE_RS1090_VERIF_DIR"), "/c06.rs"));
}

#[allow(dead_code)]
mod app {
    include!(concat!(env!("XOOLIVE_RS1090_VERIF_DIR"), "/app.rs"));
}
#[allow(dead_code)]
mod c12 {
    include!(concat!(env!("XOOLIVE_RS1090_VERIF_DIR"), "/c12.rs"));
}

#[allow(dead_code)]
mod c17 {
    include!(concat!(env!("XOOLIVE_RS1090_VERIF_DIR"), "/c17.rs"));
}

#[allow(dead_code)]
mod realtui {
    include!(concat!(env!("XOOLIVE_RS1090_VERIF_DIR"), "/realtui.rs"));
}

#[allow(dead_code)]
mod pipeline {
    include!(concat!(env!("XOOLIVE_RS1090_VERIF_DIR"), "/pipeline.rs"));
}

fn replay_or_det<S: batch::Scenario>(sc: &S, cmd: &str, env: &batch::Env) -> i32 {
    match cmd {
        "replay" => {
            let path = std::env::var("VERIF_REPLAY").unwrap_or_default();
            batch::run_replay(sc, &path)
        }
        "dethash" => {
            let n = std::env::var("VERIF_DET_RUNS").ok().and_then(|s| s.parse().ok()).unwrap_or(200);
            batch::run_dethash(sc, env, n);
            0
        }
        _ => {
            println!("HARNESS-ERROR: unknown VERIF_CMD '{}'", cmd);
            2
        }
    }
}

/// which scenario does the replay file hold?
fn replay_kind() -> String {
    let path = std::env::var("VERIF_REPLAY").unwrap_or_default();
    std::fs::read_to_string(&path)
        .ok()
        .and_then(|s| serde_json::from_str::<serde_json::Value>(&s).ok())
        .and_then(|v| v.get("scenario").and_then(|k| k.as_str()).map(|k| k.to_string()))
        .unwrap_or_else(|| "focused".to_string())
}

/// the property's focused scenario, then the pipeline scenario judged with
/// the same property's clauses; one evidence file
fn check<S: batch::Scenario>(sc: &S, env: &batch::Env) -> i32 {
    use batch::Scenario;
    let r1 = batch::run_batch(sc, env, env.runs_override.unwrap_or_else(|| sc.runs(env.tier)));
    let pl = pipeline::Pipeline { prop: sc.id(), own_plans: env.tier == batch::Tier::Thorough };
    let r2 = batch::run_batch(&pl, env, batch::extra_runs(pl.runs(env.tier), "VERIF_PIPELINE_RUNS"));
    batch::write_evidence(env, sc.id(), &r1, &[("pipeline", &r2)]);
    batch::exit_of(&[&r1, &r2])
}

fn check_c06(env: &batch::Env) -> i32 {
    use batch::Scenario;
    let r1 = batch::run_batch(&c06::C06, env, env.runs_override.unwrap_or_else(|| c06::C06.runs(env.tier)));
    let r2 = batch::run_batch(&c06::Decode1090Pos, env, batch::extra_runs(c06::Decode1090Pos.runs(env.tier), "VERIF_PROC_RUNS"));
    let pl = pipeline::Pipeline { prop: "C06", own_plans: env.tier == batch::Tier::Thorough };
    let r3 = batch::run_batch(&pl, env, batch::extra_runs(pl.runs(env.tier), "VERIF_PIPELINE_RUNS"));
    let r4 = batch::run_batch(&c06::PyBinding, env, batch::extra_runs(c06::PyBinding.runs(env.tier), "VERIF_PY_RUNS"));
    batch::write_evidence(env, "C06", &r1, &[("decode1090_process", &r2), ("pipeline", &r3), ("python_binding_process", &r4)]);
    batch::exit_of(&[&r1, &r2, &r3, &r4])
}

fn check_c17(env: &batch::Env) -> i32 {
    use batch::Scenario;
    let r1 = batch::run_batch(&c17::C17, env, env.runs_override.unwrap_or_else(|| c17::C17.runs(env.tier)));
    let pl = pipeline::Pipeline { prop: "C17", own_plans: env.tier == batch::Tier::Thorough };
    let r2 = batch::run_batch(&pl, env, batch::extra_runs(pl.runs(env.tier), "VERIF_PIPELINE_RUNS"));
    let r3 = batch::run_batch(&c17::C17Seq, env, batch::extra_runs(c17::C17Seq.runs(env.tier), "VERIF_SEQ_RUNS"));
    batch::write_evidence(env, "C17", &r1, &[("pipeline", &r2), ("exhaustive_sequences", &r3)]);
    batch::exit_of(&[&r1, &r2, &r3])
}

fn check_c10(env: &batch::Env) -> i32 {
    use batch::Scenario;
    let r1 = batch::run_batch(&c10::C10, env, env.runs_override.unwrap_or_else(|| c10::C10.runs(env.tier)));
    let r2 = batch::run_batch(&c10::Decode1090Proc, env, batch::extra_runs(c10::Decode1090Proc.runs(env.tier), "VERIF_PROC_RUNS"));
    let pl = pipeline::Pipeline { prop: "C10", own_plans: env.tier == batch::Tier::Thorough };
    let r3 = batch::run_batch(&pl, env, batch::extra_runs(pl.runs(env.tier), "VERIF_PIPELINE_RUNS"));
    let r4 = batch::run_batch(&c10::C10Grid, env, batch::extra_runs(c10::C10Grid.runs(env.tier), "VERIF_GRID_RUNS"));
    batch::write_evidence(env, "C10", &r1, &[("decode1090_process", &r2), ("pipeline", &r3), ("exhaustive_grid", &r4)]);
    batch::exit_of(&[&r1, &r2, &r3, &r4])
}

/// Entry point: `VERIF_CMD=check|replay|dethash VERIF_PROP=<id> <test binary>
/// verif::verif_entry --exact --nocapture --test-threads=1`
#[test]
fn verif_entry() {
    let cmd = std::env::var("VERIF_CMD").unwrap_or_default();
    if cmd.is_empty() {
        // plain `cargo test` with the feature on: nothing to do
        return;
    }
    let prop = std::env::var("VERIF_PROP").unwrap_or_default();
    let env = batch::Env::from_env();
    let kind = if cmd == "replay" { replay_kind() } else { std::env::var("VERIF_SCENARIO").unwrap_or_else(|_| "focused".to_string()) };
    let code = if cmd == "selftest" {
        world::selftest()
    } else if cmd == "check" {
        match prop.as_str() {
            "C06" => check_c06(&env),
            "C09" => check(&c09::C09, &env),
            "C10" => check_c10(&env),
            "C12" => check(&c12::C12, &env),
            "C17" => check_c17(&env),
            _ => {
                println!("HARNESS-ERROR: unknown property '{}'", prop);
                2
            }
        }
    } else {
        match (prop.as_str(), kind.as_str()) {
            ("C06", "focused") => replay_or_det(&c06::C06, &cmd, &env),
            ("C09", "focused") => replay_or_det(&c09::C09, &cmd, &env),
            ("C10", "focused") => replay_or_det(&c10::C10, &cmd, &env),
            ("C10", "decode1090") => replay_or_det(&c10::Decode1090Proc, &cmd, &env),
            ("C06", "decode1090") => replay_or_det(&c06::Decode1090Pos, &cmd, &env),
            ("C06", "python") => replay_or_det(&c06::PyBinding, &cmd, &env),
            ("C10", "grid") => replay_or_det(&c10::C10Grid, &cmd, &env),
            ("C17", "sequences") => replay_or_det(&c17::C17Seq, &cmd, &env),
            ("C12", "focused") => replay_or_det(&c12::C12, &cmd, &env),
            ("C17", "focused") => replay_or_det(&c17::C17, &cmd, &env),
            ("C06", "pipeline") => replay_or_det(&pipeline::Pipeline { prop: "C06", own_plans: false }, &cmd, &env),
            ("C09", "pipeline") => replay_or_det(&pipeline::Pipeline { prop: "C09", own_plans: false }, &cmd, &env),
            ("C10", "pipeline") => replay_or_det(&pipeline::Pipeline { prop: "C10", own_plans: false }, &cmd, &env),
            ("C12", "pipeline") => replay_or_det(&pipeline::Pipeline { prop: "C12", own_plans: false }, &cmd, &env),
            ("C17", "pipeline") => replay_or_det(&pipeline::Pipeline { prop: "C17", own_plans: false }, &cmd, &env),
            _ => {
                println!("HARNESS-ERROR: unknown property/scenario '{}'/'{}'", prop, kind);
                2
            }
        }
    };
    use std::io::Write;
    let _ = std::io::stdout().flush();
    std::process::exit(code);
}
