// Root of `mod verif` inside the jet1090 unit-test binary (hook H4).
// Deterministic simulation with fault injection for xoolive/rs1090.
// The sub-modules are included by path from the directory given at build time.

#[allow(dead_code)]
mod rng {
    include!(concat!(env!("XOOLIVE_RS1090_VERIF_DIR"), "/rng.rs"));
}
#[allow(dead_code)]
mod exec {
    include!(concat!(env!("XOOLIVE_RS1090_VERIF_DIR"), "/exec.rs"));
}
#[allow(dead_code)]
mod batch {
    include!(concat!(env!("XOOLIVE_RS1090_VERIF_DIR"), "/batch.rs"));
}
#[allow(dead_code)]
mod world {
    include!(concat!(env!("XOOLIVE_RS1090_VERIF_DIR"), "/world.rs"));
}
#[allow(dead_code)]
mod c10 {
    include!(concat!(env!("XOOLIVE_RS1090_VERIF_DIR"), "/c10.rs"));
}

#[allow(dead_code)]
mod c09 {
    include!(concat!(env!("XOOLIVE_RS1090_VERIF_DIR"), "/c09.rs"));
}

#[allow(dead_code)]
mod c06 {
    include!(concat!(env!("XOOLIVE_RS1090_VERIF_DIR"), "/c06.rs"));
}

#[allow(dead_code)]
mod app {
    include!(concat!(env!("XOOLIVE_RS1090_VERIF_DIR"), "/app.rs"));
}
#[allow(dead_code)]
mod c12 {
    include!(concat!(env!("XOOLIVE_RS1090_VERIF_DIR"), "/c12.rs"));
}

#[allow(dead_code)]
mod c17 {
    include!(concat!(env!("XOOLIVE_RS1090_VERIF_DIR"), "/c17.rs"));
}

fn dispatch<S: batch::Scenario>(sc: &S, cmd: &str, env: &batch::Env) -> i32 {
    match cmd {
        "check" => batch::run_check(sc, env).exit_code,
        "replay" => {
            let path = std::env::var("VERIF_REPLAY").unwrap_or_default();
            batch::run_replay(sc, &path)
        }
        "dethash" => {
            let n = std::env::var("VERIF_DET_RUNS").ok().and_then(|s| s.parse().ok()).unwrap_or(200);
            batch::run_dethash(sc, env, n);
            0
        }
        _ => {
            println!("HARNESS-ERROR: unknown VERIF_CMD '{}'", cmd);
            2
        }
    }
}

/// Entry point: `VERIF_CMD=check|replay|dethash VERIF_PROP=<id> <test binary>
/// verif::verif_entry --exact --nocapture --test-threads=1`
#[test]
fn verif_entry() {
    let cmd = std::env::var("VERIF_CMD").unwrap_or_default();
    if cmd.is_empty() {
        // plain `cargo test` with the feature on: nothing to do
        return;
    }
    let prop = std::env::var("VERIF_PROP").unwrap_or_default();
    let env = batch::Env::from_env();
    let code = match prop.as_str() {
        "C06" => dispatch(&c06::C06, &cmd, &env),
        "C09" => dispatch(&c09::C09, &cmd, &env),
        "C10" => dispatch(&c10::C10, &cmd, &env),
        "C12" => dispatch(&c12::C12, &cmd, &env),
        "C17" => dispatch(&c17::C17, &cmd, &env),
        _ => {
            println!("HARNESS-ERROR: unknown property '{}'", prop);
            2
        }
    };
    use std::io::Write;
    let _ = std::io::stdout().flush();
    std::process::exit(code);
}
