// Simulated world: an independent Mode S / ADS-B encoder written from the
// standard (DO-260B appendix A, ICAO Annex 10 vol. IV), aircraft kinematics
// and ground truth. Nothing here calls into rs1090's decoder or cpr.rs.

use super::rng::Rng;

pub fn hex(b: &[u8]) -> String {
    let mut s = String::with_capacity(b.len() * 2);
    for x in b {
        s.push_str(&format!("{:02x}", x));
    }
    s
}
pub fn unhex(s: &str) -> Vec<u8> {
    let s = s.as_bytes();
    let mut v = Vec::with_capacity(s.len() / 2);
    let d = |c: u8| -> u8 {
        match c {
            b'0'..=b'9' => c - b'0',
            b'a'..=b'f' => c - b'a' + 10,
            b'A'..=b'F' => c - b'A' + 10,
            _ => 0,
        }
    };
    let mut i = 0;
    while i + 1 < s.len() {
        v.push(d(s[i]) << 4 | d(s[i + 1]));
        i += 2;
    }
    v
}

/// CRC-24 of Mode S (generator 0x1FFF409) by bitwise long division:
/// remainder of data(x)·x^24 modulo G(x).
pub fn crc24(data: &[u8]) -> u32 {
    let mut rem: u32 = 0;
    for &b in data {
        rem ^= (b as u32) << 16;
        for _ in 0..8 {
            rem <<= 1;
            if rem & 0x0100_0000 != 0 {
                rem ^= 0x01FF_F409;
            }
        }
    }
    rem & 0x00FF_FFFF
}

/// Complete a DF17/DF18 frame: `body` = first 11 bytes; appends PI = parity.
pub fn with_parity(body: &[u8]) -> Vec<u8> {
    let p = crc24(body);
    let mut v = body.to_vec();
    v.push((p >> 16) as u8);
    v.push((p >> 8) as u8);
    v.push(p as u8);
    v
}
/// Complete an address/parity frame (DF 0, 4, 5, 16, 20, 21): AP = parity XOR address.
pub fn with_ap(body: &[u8], icao: u32) -> Vec<u8> {
    let p = crc24(body) ^ (icao & 0xFF_FFFF);
    let mut v = body.to_vec();
    v.push((p >> 16) as u8);
    v.push((p >> 8) as u8);
    v.push(p as u8);
    v
}

/// Re-address a real frame to `icao` (address bytes replaced where the
/// format carries them, parity recomputed). Returns None for formats without
/// an address.
pub fn readdress(frame: &[u8], icao: u32) -> Option<Vec<u8>> {
    let df = frame[0] >> 3;
    match df {
        17 | 18 if frame.len() == 14 => {
            let mut b = frame[..11].to_vec();
            b[1] = (icao >> 16) as u8;
            b[2] = (icao >> 8) as u8;
            b[3] = icao as u8;
            Some(with_parity(&b))
        }
        11 if frame.len() == 7 => {
            let mut b = frame[..4].to_vec();
            b[1] = (icao >> 16) as u8;
            b[2] = (icao >> 8) as u8;
            b[3] = icao as u8;
            Some(with_parity(&b))
        }
        0 | 4 | 5 if frame.len() == 7 => Some(with_ap(&frame[..4], icao)),
        16 | 20 | 21 if frame.len() == 14 => Some(with_ap(&frame[..11], icao)),
        _ => None,
    }
}

// ------------------------------------------------------------------ CPR

const NZ: f64 = 15.0;

/// Transition latitudes of the NL function from the closed formula of the
/// standard: NL(lat) = floor(2π / acos(1 − (1 − cos(π/(2·NZ))) / cos²(lat))).
/// trans[n] (n = 2..=59) is the latitude at and above which NL < n.
pub fn nl_transitions() -> [f64; 60] {
    let mut t = [0.0f64; 60];
    let a = 1.0 - (std::f64::consts::PI / (2.0 * NZ)).cos();
    for n in 2..=59usize {
        let b = 1.0 - (2.0 * std::f64::consts::PI / n as f64).cos();
        t[n] = (a / b).sqrt().acos().to_degrees();
    }
    t
}

thread_local! {
    static NLT: [f64; 60] = nl_transitions();
}

pub fn nl(lat: f64) -> u32 {
    let l = lat.abs();
    NLT.with(|t| {
        if l >= 87.0 {
            return 1;
        }
        // NL = largest n in 2..=59 with l < t[n]
        let mut n = 59;
        while n >= 2 {
            if l < t[n] {
                return n as u32;
            }
            n -= 1;
        }
        1
    })
}
/// Distance (degrees) from `lat` to the nearest NL transition latitude.
pub fn nl_margin(lat: f64) -> f64 {
    let l = lat.abs();
    NLT.with(|t| {
        let mut m = (l - 87.0).abs();
        for n in 2..=59 {
            m = m.min((l - t[n]).abs());
        }
        m
    })
}

fn fmod(a: f64, b: f64) -> f64 {
    a - b * (a / b).floor()
}

#[derive(Clone, Copy, Debug)]
pub struct CprEnc {
    pub yz: u32,
    pub xz: u32,
    /// the latitude the decoder recovers (used to evaluate NL)
    pub rlat: f64,
}

/// Encode (lat, lon) in CPR format `odd` (false = even); `surface` selects
/// the 90° (surface) instead of the 360° (airborne) zone system.
pub fn cpr_encode(lat: f64, lon: f64, odd: bool, surface: bool) -> CprEnc {
    let i = if odd { 1.0 } else { 0.0 };
    let span = if surface { 90.0 } else { 360.0 };
    let dlat = span / (4.0 * NZ - i);
    let scale = 131072.0; // 2^17
    let yz = (scale * fmod(lat, dlat) / dlat + 0.5).floor();
    let rlat = dlat * (yz / scale + (lat / dlat).floor());
    let nl_i = nl(rlat) as f64 - i;
    let dlon = if nl_i > 0.0 { span / nl_i } else { span };
    let xz = (scale * fmod(lon, dlon) / dlon + 0.5).floor();
    CprEnc {
        yz: (yz as u64 % 131072) as u32,
        xz: (xz as u64 % 131072) as u32,
        rlat,
    }
}

// ------------------------------------------------------------------ ME fields

/// 12-bit altitude code (Q = 1, 25 ft increments) for an altitude in feet
/// (-1000 .. 50175 ft).
pub fn ac12_25ft(alt_ft: i32) -> u16 {
    let n = ((alt_ft + 1000) / 25).clamp(0, 2047) as u16;
    // N on 11 bits, Q bit inserted at bit 4
    ((n & 0x7F0) << 1) | 0x10 | (n & 0x0F)
}

/// 12-bit altitude code with Q = 0: the Gillham code in 100 ft increments
/// (-1200 .. 126700 ft), the only way to send an altitude above 50175 ft.
/// Written from the definition (Annex 10 vol. IV, 3.1.2.6.5.4): the 500 ft
/// count is a reflected Gray code on D2 D4 A1 A2 A4 B1 B2 B4, the 100 ft step
/// a five-position code on C1 C2 C4 that runs backwards on odd 500 ft counts.
pub fn ac12_gillham(alt_ft: i32) -> u16 {
    let v = (alt_ft.clamp(-1200, 126_700) + 1200) / 100; // hundreds above -1200 ft
    let n500 = (v / 5) as u16;
    let mut n100 = (v % 5) as u16 + 1; // 1..=5
    if n500 & 1 == 1 {
        n100 = 6 - n100;
    }
    // C1 C2 C4 for the positions 1..=5
    let c = [0b001u16, 0b011, 0b010, 0b110, 0b100][n100 as usize - 1];
    let g = n500 ^ (n500 >> 1); // D2 D4 A1 A2 A4 B1 B2 B4, D2 first
    let bit = |x: u16, i: u16| (x >> i) & 1;
    let (d2, d4, a1, a2, a4, b1, b2, b4) = (bit(g, 7), bit(g, 6), bit(g, 5), bit(g, 4), bit(g, 3), bit(g, 2), bit(g, 1), bit(g, 0));
    let (c1, c2, c4) = (bit(c, 2), bit(c, 1), bit(c, 0));
    // field order: C1 A1 C2 A2 C4 A4 B1 Q B2 D2 B4 D4
    (c1 << 11) | (a1 << 10) | (c2 << 9) | (a2 << 8) | (c4 << 7) | (a4 << 6) | (b1 << 5) | (b2 << 3) | (d2 << 2) | (b4 << 1) | d4
}

/// A transponder reports in 100 ft Gillham steps above 50175 ft (it has to) and,
/// for one address in nine, at every altitude (older altitude encoders).
pub fn uses_gillham(icao: u32, alt_ft: i32) -> bool {
    alt_ft > 50_175 || icao % 9 == 0
}

pub fn ac12(alt_ft: i32, gillham: bool) -> u16 {
    if gillham {
        ac12_gillham(alt_ft)
    } else {
        ac12_25ft(alt_ft)
    }
}

/// the altitude a receiver reads from `ac12(alt_ft, gillham)`, None when the
/// field says "no altitude" (0 ft and below)
pub fn altitude_as_sent(alt_ft: i32, gillham: bool) -> Option<i32> {
    if gillham {
        let a = (alt_ft.clamp(-1200, 126_700) + 1200) / 100 * 100 - 1200;
        if a >= 0 {
            Some(a)
        } else {
            None
        }
    } else {
        let n = ((alt_ft + 1000) / 25).clamp(0, 2047);
        if n * 25 > 1000 {
            Some(n * 25 - 1000)
        } else {
            None
        }
    }
}

/// DF17 airborne position (TC 9..18 barometric, 20..22 GNSS)
pub fn df17_airborne_position(
    icao: u32,
    tc: u8,
    alt_ft: i32,
    lat: f64,
    lon: f64,
    odd: bool,
) -> (Vec<u8>, CprEnc) {
    df17_airborne_position_alt(icao, tc, ac12_25ft(alt_ft), lat, lon, odd)
}

/// the same with the 12-bit altitude field given
pub fn df17_airborne_position_alt(
    icao: u32,
    tc: u8,
    ac12: u16,
    lat: f64,
    lon: f64,
    odd: bool,
) -> (Vec<u8>, CprEnc) {
    let c = cpr_encode(lat, lon, odd, false);
    let mut me: u64 = 0;
    me |= (tc as u64 & 0x1F) << 51;
    // SS = 0, SAF/NICb = 0
    me |= (ac12 as u64 & 0xFFF) << 36;
    // T = 0
    me |= (odd as u64) << 34;
    me |= (c.yz as u64) << 17;
    me |= c.xz as u64;
    (df17(icao, 5, me), c)
}

/// movement code for a ground speed in kt (DO-260B table A-6)
pub fn movement_code(gs: f64) -> u8 {
    if gs < 0.125 {
        1
    } else if gs < 1.0 {
        (2.0 + ((gs - 0.125) / 0.125).floor()).min(8.0) as u8
    } else if gs < 2.0 {
        (9.0 + ((gs - 1.0) / 0.25).floor()).min(12.0) as u8
    } else if gs < 15.0 {
        (13.0 + ((gs - 2.0) / 0.5).floor()).min(38.0) as u8
    } else if gs < 70.0 {
        (39.0 + (gs - 15.0).floor()).min(93.0) as u8
    } else if gs < 100.0 {
        (94.0 + ((gs - 70.0) / 2.0).floor()).min(108.0) as u8
    } else if gs < 175.0 {
        (109.0 + ((gs - 100.0) / 5.0).floor()).min(123.0) as u8
    } else {
        124
    }
}

/// DF17 surface position (TC 5..8)
pub fn df17_surface_position(
    icao: u32,
    tc: u8,
    gs_kt: f64,
    track_deg: f64,
    lat: f64,
    lon: f64,
    odd: bool,
) -> (Vec<u8>, CprEnc) {
    let c = cpr_encode(lat, lon, odd, true);
    let mut me: u64 = 0;
    me |= (tc as u64 & 0x1F) << 51;
    me |= (movement_code(gs_kt) as u64 & 0x7F) << 44;
    me |= 1u64 << 43; // track valid
    let trk = ((fmod(track_deg, 360.0) * 128.0 / 360.0).floor() as u64) & 0x7F;
    me |= trk << 36;
    me |= (odd as u64) << 34;
    me |= (c.yz as u64) << 17;
    me |= c.xz as u64;
    (df17(icao, 4, me), c)
}

pub fn df17(icao: u32, ca: u8, me: u64) -> Vec<u8> {
    let mut b = vec![(17u8 << 3) | (ca & 7), (icao >> 16) as u8, (icao >> 8) as u8, icao as u8];
    for k in (0..7).rev() {
        b.push((me >> (8 * k)) as u8);
    }
    with_parity(&b)
}
pub fn df18(icao: u32, cf: u8, me: u64) -> Vec<u8> {
    let mut b = vec![(18u8 << 3) | (cf & 7), (icao >> 16) as u8, (icao >> 8) as u8, icao as u8];
    for k in (0..7).rev() {
        b.push((me >> (8 * k)) as u8);
    }
    with_parity(&b)
}

const CS_CHARS: &[u8] = b"#ABCDEFGHIJKLMNOPQRSTUVWXYZ##### ###############0123456789######";

/// DF17 identification (TC 1..4), callsign of up to 8 characters from the
/// 6-bit alphabet (A-Z, 0-9, space)
pub fn df17_identification(icao: u32, tc: u8, ca_cat: u8, callsign: &str) -> Vec<u8> {
    let mut me: u64 = 0;
    me |= (tc as u64 & 0x1F) << 51;
    me |= (ca_cat as u64 & 7) << 48;
    let cs = format!("{:<8}", callsign);
    for (k, ch) in cs.bytes().take(8).enumerate() {
        let code = CS_CHARS.iter().position(|&c| c == ch && c != b'#').unwrap_or(32) as u64;
        me |= code << (42 - 6 * k);
    }
    df17(icao, 5, me)
}

/// DF17 airborne velocity subtype 1 (ground speed), speeds in kt, vertical
/// rate in ft/min (multiple of 64)
pub fn df17_velocity_gs(icao: u32, v_ew: i32, v_ns: i32, vrate: i32) -> Vec<u8> {
    let mut me: u64 = 0;
    me |= 19u64 << 51;
    me |= 1u64 << 48; // subtype 1
    // IC=0, IFR=0, NUC=0
    let (dew, vew) = if v_ew < 0 { (1u64, (-v_ew) as u64) } else { (0u64, v_ew as u64) };
    let (dns, vns) = if v_ns < 0 { (1u64, (-v_ns) as u64) } else { (0u64, v_ns as u64) };
    me |= dew << 42;
    me |= ((vew + 1) & 0x3FF) << 32;
    me |= dns << 31;
    me |= ((vns + 1) & 0x3FF) << 21;
    // vrate source = 0 (GNSS), sign, value
    let (svr, vr) = if vrate < 0 { (1u64, (-vrate) as u64) } else { (0u64, vrate as u64) };
    me |= svr << 19;
    me |= ((vr / 64 + 1) & 0x1FF) << 10;
    // reserved 2 bits, GNSS/baro diff: sign 0, value 0 (not available)
    df17(icao, 5, me)
}

/// 13-bit identity (squawk) field from four octal digits A B C D
pub fn id13(squawk_octal: [u8; 4]) -> u16 {
    let [a, b, c, d] = squawk_octal;
    let bit = |v: u8, m: u8| -> u16 { ((v & m) != 0) as u16 };
    // C1 A1 C2 A2 C4 A4 X B1 D1 B2 D2 B4 D4  (msb first)
    (bit(c, 1) << 12)
        | (bit(a, 1) << 11)
        | (bit(c, 2) << 10)
        | (bit(a, 2) << 9)
        | (bit(c, 4) << 8)
        | (bit(a, 4) << 7)
        | (bit(b, 1) << 5)
        | (bit(d, 1) << 4)
        | (bit(b, 2) << 3)
        | (bit(d, 2) << 2)
        | (bit(b, 4) << 1)
        | bit(d, 4)
}

/// 13-bit altitude code (M = 0, Q = 1, 25 ft)
pub fn ac13_25ft(alt_ft: i32) -> u16 {
    let n = ((alt_ft + 1000) / 25).clamp(0, 2047) as u16;
    // bits: n10..n5 M n4 Q n3..n0  -> positions 12..7, 6 (M), 5, 4 (Q), 3..0
    ((n & 0x7E0) << 2) | ((n & 0x010) << 1) | 0x10 | (n & 0x0F)
}

/// DF4 surveillance altitude reply
pub fn df4(icao: u32, fs: u8, alt_ft: i32) -> Vec<u8> {
    let v: u32 = (4u32 << 27) | ((fs as u32 & 7) << 24) | (ac13_25ft(alt_ft) as u32);
    with_ap(&v.to_be_bytes(), icao)
}
/// DF5 surveillance identity reply
pub fn df5(icao: u32, fs: u8, squawk: [u8; 4]) -> Vec<u8> {
    let v: u32 = (5u32 << 27) | ((fs as u32 & 7) << 24) | (id13(squawk) as u32);
    with_ap(&v.to_be_bytes(), icao)
}
/// DF11 all-call reply (interrogator code 0)
pub fn df11(icao: u32, ca: u8) -> Vec<u8> {
    let b = [(11u8 << 3) | (ca & 7), (icao >> 16) as u8, (icao >> 8) as u8, icao as u8];
    with_parity(&b)
}
/// DF0 short air-air surveillance
pub fn df0(icao: u32, alt_ft: i32) -> Vec<u8> {
    let v: u32 = (ac13_25ft(alt_ft) as u32) | (3 << 19);
    with_ap(&v.to_be_bytes(), icao)
}

// ------------------------------------------------------------------ kinematics

pub const R_EARTH_M: f64 = 6_371_000.0;
pub const KT: f64 = 0.514_444; // m/s

pub fn norm_lon(lon: f64) -> f64 {
    let mut l = (lon + 180.0) % 360.0;
    if l < 0.0 {
        l += 360.0;
    }
    l - 180.0
}

/// great-circle distance in metres
pub fn gc_dist_m(lat1: f64, lon1: f64, lat2: f64, lon2: f64) -> f64 {
    let (p1, p2) = (lat1.to_radians(), lat2.to_radians());
    let dp = p2 - p1;
    let dl = (lon2 - lon1).to_radians();
    let a = (dp / 2.0).sin().powi(2) + p1.cos() * p2.cos() * (dl / 2.0).sin().powi(2);
    2.0 * R_EARTH_M * a.sqrt().min(1.0).asin()
}

/// Move along a rhumb line (constant heading) from (lat, lon) for `dist_m`.
pub fn rhumb_step(lat: f64, lon: f64, heading_deg: f64, dist_m: f64) -> (f64, f64) {
    let h = heading_deg.to_radians();
    let dlat = dist_m * h.cos() / R_EARTH_M;
    let lat1 = lat.to_radians();
    let mut lat2 = lat1 + dlat;
    let lim = 89.5f64.to_radians();
    if lat2 > lim {
        lat2 = lim;
    }
    if lat2 < -lim {
        lat2 = -lim;
    }
    let dpsi = ((std::f64::consts::FRAC_PI_4 + lat2 / 2.0).tan()
        / (std::f64::consts::FRAC_PI_4 + lat1 / 2.0).tan())
    .ln();
    let q = if dpsi.abs() > 1e-12 {
        (lat2 - lat1) / dpsi
    } else {
        lat1.cos()
    };
    let dlon = dist_m * h.sin() / (R_EARTH_M * q.max(1e-9));
    (lat2.to_degrees(), norm_lon(lon + dlon.to_degrees()))
}

/// A leg of a track: constant heading and ground speed.
#[derive(Clone, Copy, Debug, serde::Serialize, serde::Deserialize)]
pub struct Leg {
    /// duration in seconds
    pub dur: f64,
    pub heading: f64,
    /// ground speed in kt
    pub gs: f64,
    /// true = on the surface (surface position reports)
    pub surface: bool,
    /// altitude in ft at the start of the leg and vertical rate in ft/min
    pub alt: f64,
    pub vrate: f64,
}

#[derive(Clone, Debug, serde::Serialize, serde::Deserialize)]
pub struct Track {
    pub lat0: f64,
    pub lon0: f64,
    pub legs: Vec<Leg>,
}

#[derive(Clone, Copy, Debug)]
pub struct TruthPoint {
    pub lat: f64,
    pub lon: f64,
    pub alt: f64,
    pub gs: f64,
    pub heading: f64,
    pub surface: bool,
}

impl Track {
    pub fn total_dur(&self) -> f64 {
        self.legs.iter().map(|l| l.dur).sum()
    }
    /// true state at time t (seconds from the start of the track)
    pub fn at(&self, t: f64) -> TruthPoint {
        let (mut lat, mut lon) = (self.lat0, self.lon0);
        let mut rem = t.max(0.0);
        let mut last = None;
        for leg in &self.legs {
            let d = rem.min(leg.dur);
            // a leg that would run into the polar cap is flown away from it
            let mut heading = leg.heading;
            let (l2, _) = rhumb_step(lat, lon, heading, leg.gs * KT * leg.dur);
            if l2.abs() >= 89.4 {
                heading = fmod(180.0 - heading, 360.0);
            }
            let (nlat, nlon) = rhumb_step(lat, lon, heading, leg.gs * KT * d);
            let alt = leg.alt + leg.vrate * d / 60.0;
            last = Some(TruthPoint {
                lat: nlat,
                lon: nlon,
                alt,
                gs: leg.gs,
                heading,
                surface: leg.surface,
            });
            lat = nlat;
            lon = nlon;
            rem -= d;
            if rem <= 0.0 {
                break;
            }
        }
        last.unwrap_or(TruthPoint {
            lat,
            lon,
            alt: 0.0,
            gs: 0.0,
            heading: 0.0,
            surface: false,
        })
    }
}

/// Stratified choice of a start point (see DESIGN.md 3.3)
pub fn pick_start(rng: &mut Rng) -> (f64, f64) {
    let trans = nl_transitions();
    let lat = match rng.below(10) {
        0 => rng.frange(-1.0, 1.0),                       // equator
        1 => rng.frange(86.0, 89.0) * if rng.chance(0.5) { 1.0 } else { -1.0 },
        2 | 3 => {
            // next to an NL transition latitude
            let n = rng.range(2, 59) as usize;
            let s = if rng.chance(0.5) { 1.0 } else { -1.0 };
            s * (trans[n] + rng.frange(-0.3, 0.3))
        }
        4 => {
            // next to an (airborne or surface) latitude zone edge
            let z = *rng.pick(&[6.0, 360.0 / 59.0, 1.5, 90.0 / 59.0]);
            let k = rng.irange(-13, 13) as f64;
            (k * z + rng.frange(-0.05, 0.05)).clamp(-88.0, 88.0)
        }
        _ => rng.frange(-80.0, 80.0),
    };
    let lon = match rng.below(8) {
        0 => norm_lon(180.0 + rng.frange(-0.5, 0.5)),
        1 => rng.frange(-0.5, 0.5),
        2 => {
            // next to a longitude zone edge at that latitude
            let n = nl(lat).max(1) as f64;
            let z = *rng.pick(&[360.0 / n, 90.0 / n, 360.0 / (n - 1.0).max(1.0)]);
            let k = rng.irange(-20, 20) as f64;
            norm_lon(k * z + rng.frange(-0.05, 0.05))
        }
        _ => rng.frange(-180.0, 180.0),
    };
    (lat.clamp(-89.0, 89.0), lon)
}


/// `./check selftest`: the driver's altitude encoders against the real decoder,
/// over the whole range (done once by hand after a change of world.rs; not part
/// of any registered check: a decoder that misreads altitudes must show as a
/// violation of a property, not as a harness error)
pub fn selftest() -> i32 {
    use rs1090::prelude::*;
    let mut bad = 0;
    let mut n = 0;
    for gillham in [false, true] {
        let (lo, hi, step) = if gillham { (-1200, 126_700, 100) } else { (-1000, 50_175, 25) };
        let mut alt = lo;
        while alt <= hi {
            for extra in [0, 7, step - 1] {
                let a = alt + extra;
                if a > hi {
                    continue;
                }
                let (frame, _) = df17_airborne_position_alt(0x4b1234, 11, ac12(a, gillham), 45.0, 5.0, false);
                let got = match Message::try_from(frame.as_slice()) {
                    Ok(m) => match m.df {
                        ExtendedSquitterADSB(adsb) => match adsb.message {
                            ME::BDS05(p) => p.alt.map(|x| x as i32),
                            _ => Some(-999_999),
                        },
                        _ => Some(-999_999),
                    },
                    Err(_) => Some(-999_998),
                };
                // (the decoder keeps altitudes in a u16: nothing above 65535 ft)
                let want = altitude_as_sent(a, gillham).filter(|x| *x <= 65_535);
                n += 1;
                if got != want {
                    bad += 1;
                    if bad <= 10 {
                        println!("selftest: altitude {} ft (gillham={}): sent as {:?}, decoder read {:?}", a, gillham, want, got);
                    }
                }
            }
            alt += step;
        }
    }
    println!("selftest: {} altitudes, {} disagreements", n, bad);
    if bad == 0 { 0 } else { 2 }
}
