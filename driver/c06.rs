// C06 — trajectory decoding never emits a wrong position; aircraft do not
// interfere.
//
// System under test: the real `cpr::decode_position` with its per-aircraft
// state map, and the real batch driver `cpr::decode_positions`, fed through the
// real `Message::try_from`. The simulated part is the air picture (aircraft
// kinematics, an independent CPR encoder), the radio channel (loss, blackouts,
// duplicates, reordering, swapped timestamps), time, and decoder restarts.
// There is no task concurrency on this path: the history is the schedule.

use super::batch::{Meta, Outcome, Scenario, Tier, Violation};
use super::exec;
use super::rng::{Fnv, Rng};
use super::world::{self, Leg, Track};
use rs1090::decode::cpr::{decode_position, decode_positions, AircraftState, Position};
use rs1090::prelude::*;
use serde::{Deserialize, Serialize};
use std::collections::BTreeMap;

#[derive(Clone, Debug, Serialize, Deserialize)]
pub struct AcPlan {
    pub icao: u32,
    /// transmitted as DF18 (TIS-B, CF=2) instead of DF17
    pub tisb: bool,
    pub track: Track,
}

#[derive(Clone, Debug, Serialize, Deserialize)]
pub struct Report {
    pub ac: u8,
    /// time (s from scenario start) at which the report was encoded: the
    /// ground truth is the aircraft's position at that instant
    pub t_enc: f64,
    /// timestamp handed to the decoder (s from scenario start)
    pub ts: f64,
    pub odd: bool,
    /// type code: 9..=18 / 20..=22 airborne, 5..=8 surface (chosen from the
    /// truth's air/ground state at run time when 0)
    pub tc: u8,
    /// fault that produced this entry: 0 none, 1 duplicate, 2 timestamp swap,
    /// 3 order swap
    #[serde(default)]
    pub fault: u8,
}

#[derive(Clone, Debug, Serialize, Deserialize)]
pub struct C06Plan {
    pub aircraft: Vec<AcPlan>,
    /// fixed receiver reference (lat, lon), if any
    pub reference: Option<(f64, f64)>,
    /// the decoder is restarted (its state map dropped) before feeding the
    /// report with this index
    pub restarts: Vec<usize>,
    /// the history in feed order
    pub reports: Vec<Report>,
    /// generator family, for the evidence only
    pub kind: u8,
    /// deduplication window handed to decode1090 (process scenario only)
    #[serde(default)]
    pub dedup_ms: u32,
    /// python-binding scenario only: sizes of the chunks the history is handed
    /// over in (the last chunk takes the rest; zeros are empty chunks)
    #[serde(default)]
    pub chunks: Vec<u16>,
    /// python-binding scenario only: an undecodable frame (with its own
    /// timestamp) is inserted before the report with this index
    #[serde(default)]
    pub bad_before: Vec<u32>,
}

pub struct C06;

const MAX_KT: f64 = 700.0;

fn leg(dur: f64, heading: f64, gs: f64, surface: bool, alt: f64, vrate: f64) -> Leg {
    Leg {
        dur,
        heading,
        gs: gs.min(MAX_KT),
        surface,
        alt,
        vrate,
    }
}

pub struct AcGen {
    pub plan: AcPlan,
    /// visibility windows [start, end) in s, with the reporting period
    pub windows: Vec<(f64, f64, f64)>,
    /// where a reference has to be (the surface segment), if any
    pub surface_point: Option<(f64, f64)>,
    /// parity of the first report of the last window (directed scenarios)
    pub last_window_parity: Option<bool>,
}

pub fn gen_aircraft(rng: &mut Rng, kind: u8, max_reports: usize) -> AcGen {
    let icao = rng.range(1, 0xFF_FFFE) as u32;
    let (lat0, lon0) = world::pick_start(rng);
    let tisb = rng.chance(0.1);
    let mut legs = Vec::new();
    let mut windows: Vec<(f64, f64, f64)> = Vec::new();
    let mut surface_point = None;
    let period = |rng: &mut Rng| *rng.pick(&[0.5, 0.5, 0.5, 1.0, 2.0, 4.0]);
    let gap = |rng: &mut Rng| match rng.below(10) {
        0 | 1 => rng.frange(0.5, 9.0),
        2 | 3 => rng.frange(9.5, 10.5),
        4 => rng.frange(10.5, 170.0),
        5 | 6 => rng.frange(170.0, 190.0),
        7 => rng.frange(190.0, 1200.0),
        8 => rng.frange(1200.0, 3600.0),
        _ => rng.frange(0.0, 30.0),
    };
    match kind {
        // ---- free flight / landing / take-off / taxi, random visibility
        0..=3 => {
            let n_air = if kind == 3 { 0 } else { rng.usize(1, 4) };
            let mut alt = rng.frange(1500.0, 40000.0);
            // balloons, HAPS, U-2: above the 25 ft code (50175 ft), level flight
            let high = rng.chance(0.05);
            if high {
                alt = match rng.below(3) {
                    0 => rng.frange(50_200.0, 126_600.0),
                    1 => rng.frange(65_000.0, 67_000.0),
                    _ => rng.frange(50_200.0, 75_000.0),
                };
            }
            let mk_air = |rng: &mut Rng, alt: &mut f64, legs: &mut Vec<Leg>| {
                let dur = *rng.pick(&[20.0, 60.0, 200.0, 600.0, 1500.0]) * rng.frange(0.5, 1.5);
                let gs = match rng.below(4) {
                    0 => rng.frange(0.0, 120.0),
                    1 => rng.frange(650.0, 700.0),
                    _ => rng.frange(120.0, 700.0),
                };
                let vr = if *alt > 45_000.0 { 0.0 } else { *rng.pick(&[0.0, 0.0, 1500.0, -1500.0, 3000.0]) };
                legs.push(leg(dur, rng.frange(0.0, 360.0), gs, false, *alt, vr));
                if vr != 0.0 {
                    *alt = (*alt + vr * dur / 60.0).clamp(500.0, 45000.0);
                }
            };
            let mk_ground = |rng: &mut Rng, legs: &mut Vec<Leg>, start_fast: bool| {
                let hdg = rng.frange(0.0, 360.0);
                if start_fast {
                    legs.push(leg(rng.frange(5.0, 25.0), hdg, rng.frange(60.0, 150.0), true, 0.0, 0.0));
                }
                for _ in 0..rng.usize(1, 3) {
                    legs.push(leg(rng.frange(10.0, 200.0), rng.frange(0.0, 360.0), rng.frange(0.0, 30.0), true, 0.0, 0.0));
                }
            };
            match kind {
                0 => {
                    for _ in 0..n_air {
                        mk_air(rng, &mut alt, &mut legs);
                    }
                }
                1 => {
                    for _ in 0..n_air {
                        mk_air(rng, &mut alt, &mut legs);
                    }
                    mk_ground(rng, &mut legs, true);
                }
                2 => {
                    mk_ground(rng, &mut legs, false);
                    legs.push(leg(rng.frange(10.0, 30.0), rng.frange(0.0, 360.0), rng.frange(100.0, 170.0), true, 0.0, 0.0));
                    for _ in 0..n_air {
                        mk_air(rng, &mut alt, &mut legs);
                    }
                }
                _ => mk_ground(rng, &mut legs, false),
            }
            // visibility windows over the whole track
            let total: f64 = legs.iter().map(|l| l.dur).sum();
            let mut t = rng.frange(0.0, 5.0);
            while t < total {
                let len = *rng.pick(&[1.0, 3.0, 8.0, 20.0, 60.0]) * rng.frange(0.5, 1.5);
                windows.push((t, (t + len).min(total), period(rng)));
                t += len + gap(rng);
            }
        }
        // ---- directed: stale own position made plausible for a surface report
        4 => {
            let parity_odd = rng.chance(0.5);
            let i = if parity_odd { 1.0 } else { 0.0 };
            let k = *rng.pick(&[1.0, -1.0, 1.0, -1.0, 2.0, -2.0, 0.0]);
            let lat_start = rng.frange(-60.0, 60.0);
            let dlat_zone = 90.0 / (60.0 - i);
            let lat_end = lat_start + k * dlat_zone;
            let nl_end = world::nl(lat_end).max(2) as f64;
            let l = if k == 0.0 { *rng.pick(&[1.0, -1.0]) } else { *rng.pick(&[0.0, 0.0, 1.0, -1.0]) };
            let dlon_zone = 90.0 / (nl_end - i).max(1.0);
            let lon_start = lon0;
            // miss the exact alias by up to ~0.9 km
            let miss_n = rng.frange(-0.6, 0.6) / 111.0;
            let miss_e = rng.frange(-0.6, 0.6) / (111.0 * lat_end.to_radians().cos().max(0.1));
            let lat_target = lat_end + miss_n;
            let lon_target = lon_start + l * dlon_zone + miss_e;
            // visible airborne prefix, so that a position is known
            let pre = rng.frange(6.0, 20.0);
            let hdg0 = rng.frange(0.0, 360.0);
            let gs0 = rng.frange(120.0, 250.0);
            legs.push(leg(pre, hdg0, gs0, false, 3000.0, -600.0));
            let (la, lo) = world::rhumb_step(lat_start, lon_start, hdg0, gs0 * world::KT * pre);
            // blackout leg from (la, lo) to the target, as a rhumb line
            let (hdg, dist) = rhumb_to(la, lo, lat_target, lon_target);
            let gs = rng.frange(300.0, 690.0);
            let dur = dist / (gs * world::KT);
            legs.push(leg(dur, hdg, gs, false, 3000.0, 0.0));
            // rolling out on the runway, then taxi
            legs.push(leg(rng.frange(20.0, 60.0), rng.frange(0.0, 360.0), rng.frange(0.0, 12.0), true, 0.0, 0.0));
            windows.push((0.0, pre, 0.5));
            windows.push((pre + dur, pre + dur + 15.0, 0.5));
            let plan = AcPlan {
                icao,
                tisb,
                track: Track { lat0: lat_start, lon0: lon_start, legs },
            };
            let end = plan.track.at(pre + dur + 1.0);
            return AcGen {
                plan,
                windows,
                surface_point: Some((end.lat, end.lon)),
                last_window_parity: Some(parity_odd),
            };
        }
        // ---- directed: stale own position one airborne zone away, single parity afterwards
        _ => {
            let parity_odd = rng.chance(0.5);
            let i = if parity_odd { 1.0 } else { 0.0 };
            let lat_start = rng.frange(-50.0, 50.0);
            let northsouth = rng.chance(0.5);
            let (lat_target, lon_target) = if northsouth {
                let k = *rng.pick(&[1.0, -1.0]);
                (lat_start + k * 360.0 / (60.0 - i) + rng.frange(-0.3, 0.3), lon0 + rng.frange(-0.3, 0.3))
            } else {
                let nlv = world::nl(lat_start).max(2) as f64;
                let k = *rng.pick(&[1.0, -1.0]);
                (lat_start + rng.frange(-0.2, 0.2), lon0 + k * 360.0 / (nlv - i).max(1.0) + rng.frange(-0.3, 0.3))
            };
            let pre = rng.frange(6.0, 20.0);
            let hdg0 = rng.frange(0.0, 360.0);
            legs.push(leg(pre, hdg0, 400.0, false, 35000.0, 0.0));
            let (la, lo) = world::rhumb_step(lat_start, lon0, hdg0, 400.0 * world::KT * pre);
            let (hdg, dist) = rhumb_to(la, lo, lat_target, lon_target);
            let gs = rng.frange(600.0, 699.0);
            let dur = dist / (gs * world::KT);
            legs.push(leg(dur, hdg, gs, false, 35000.0, 0.0));
            legs.push(leg(120.0, hdg, gs, false, 35000.0, 0.0));
            windows.push((0.0, pre, 0.5));
            // afterwards: sparse reports, more than 10 s apart, so no pair forms
            windows.push((pre + dur, pre + dur + 100.0, rng.frange(10.5, 14.0)));
            let plan = AcPlan {
                icao,
                tisb,
                track: Track { lat0: lat_start, lon0, legs },
            };
            return AcGen { plan, windows, surface_point: None, last_window_parity: Some(parity_odd) };
        }
    }
    let plan = AcPlan {
        icao,
        tisb,
        track: Track { lat0, lon0, legs },
    };
    // surface point for the reference: first surface instant, if any
    let mut t = 0.0;
    for l in &plan.track.legs {
        if l.surface {
            let p = plan.track.at(t + 0.001);
            surface_point = Some((p.lat, p.lon));
            break;
        }
        t += l.dur;
    }
    let _ = max_reports;
    AcGen { plan, windows, surface_point, last_window_parity: None }
}

/// heading (deg) and distance (m) of the rhumb line between two points
fn rhumb_to(lat1: f64, lon1: f64, lat2: f64, lon2: f64) -> (f64, f64) {
    let (p1, p2) = (lat1.to_radians(), lat2.to_radians());
    let dphi = p2 - p1;
    let mut dlon = (lon2 - lon1).to_radians();
    if dlon > std::f64::consts::PI {
        dlon -= 2.0 * std::f64::consts::PI;
    }
    if dlon < -std::f64::consts::PI {
        dlon += 2.0 * std::f64::consts::PI;
    }
    let dpsi = ((std::f64::consts::FRAC_PI_4 + p2 / 2.0).tan() / (std::f64::consts::FRAC_PI_4 + p1 / 2.0).tan()).ln();
    let q = if dpsi.abs() > 1e-12 { dphi / dpsi } else { p1.cos() };
    let d = (dphi * dphi + q * q * dlon * dlon).sqrt() * world::R_EARTH_M;
    let h = dlon.atan2(dpsi).to_degrees();
    ((h + 360.0) % 360.0, d)
}

pub fn emit_reports(rng: &mut Rng, ai: u8, g: &AcGen, max_reports: usize) -> Vec<Report> {
    let mut v = Vec::new();
    let mut odd = rng.chance(0.5);
    for (wi, &(a, b, per)) in g.windows.iter().enumerate() {
        if wi + 1 == g.windows.len() {
            if let Some(p) = g.last_window_parity {
                // directed scenarios: parity of the first report after the blackout
                odd = p;
            }
        }
        let single_parity = per > 10.0;
        let mut t = a + rng.frange(0.0, per.min(0.5));
        while t < b && v.len() < max_reports {
            v.push(Report {
                ac: ai,
                t_enc: t,
                ts: t,
                odd,
                tc: 0,
                fault: 0,
            });
            // a position-source outage: the transponder keeps squittering type
            // code 0 (altitude only, no position) for a while
            if rng.chance(0.02) {
                for q in 0..rng.usize(1, 4) {
                    if v.len() < max_reports {
                        v.push(Report { ac: ai, t_enc: t + 0.1 + 0.5 * q as f64, ts: t + 0.1 + 0.5 * q as f64, odd: false, tc: 255, fault: 0 });
                    }
                }
            }
            if !single_parity {
                // transponders alternate; sometimes the same parity comes twice
                if rng.chance(0.9) {
                    odd = !odd;
                }
            }
            t += per * rng.frange(0.8, 1.2);
        }
    }
    v
}

fn apply_channel_faults(rng: &mut Rng, reports: Vec<Report>, loss: f64, heavy: bool) -> Vec<Report> {
    // independent loss
    let mut v: Vec<Report> = reports.into_iter().filter(|_| !rng.chance(loss)).collect();
    if !heavy {
        return v;
    }
    // duplicates: the same report delivered again within a second
    let mut i = 0;
    while i < v.len() {
        if rng.chance(0.04) {
            let mut d = v[i].clone();
            d.fault = 1;
            d.ts = if rng.chance(0.5) { d.ts } else { d.ts + rng.frange(0.0, 0.9) };
            v.insert(i + 1, d);
            i += 1;
        }
        i += 1;
    }
    // timestamps of neighbouring reports (≤ 1 s apart) swapped
    for i in 0..v.len().saturating_sub(1) {
        if rng.chance(0.03) && (v[i + 1].ts - v[i].ts).abs() <= 1.0 {
            let (a, b) = (v[i].ts, v[i + 1].ts);
            v[i].ts = b;
            v[i + 1].ts = a;
            v[i].fault = 2;
            v[i + 1].fault = 2;
        }
    }
    v
}

impl Scenario for C06 {
    type Plan = C06Plan;
    fn id(&self) -> &'static str {
        "C06"
    }
    fn runs(&self, tier: Tier) -> u64 {
        match tier {
            Tier::Quick => 150_000,
            Tier::Thorough => 4_000_000,
        }
    }
    fn generate(&self, rng: &mut Rng, tier: Tier, _idx: u64) -> C06Plan {
        // (1 run in 50: more aircraft than the property's 1-4, to load the state map)
        // (1 run in 2500: a long recording - tens of thousands of reports, as the
        // offline batch driver decode_positions and the bindings are given)
        let long = rng.chance(0.0004);
        let n_ac = if long {
            rng.usize(30, 40)
        } else if rng.chance(0.02) {
            rng.usize(8, 40)
        } else {
            *rng.pick(&[1usize, 1, 2, 2, 3, 4])
        };
        let max_reports = match tier {
            _ if long => 4000,
            Tier::Quick if n_ac > 4 => 25,
            Tier::Quick => 120,
            Tier::Thorough => {
                if rng.chance(0.05) {
                    600
                } else {
                    150
                }
            }
        };
        let kind = match rng.below(20) {
            0..=6 => 0,
            7..=9 => 1,
            10 | 11 => 2,
            12 => 3,
            13..=16 => 4,
            _ => 5,
        } as u8;
        let mut gens = Vec::new();
        for a in 0..n_ac {
            // the first aircraft follows the scenario kind, the others are traffic
            // (airborne only: every surface segment must be near the one receiver reference)
            let k = if a == 0 { kind } else { 0 };
            gens.push(gen_aircraft(rng, k, max_reports));
        }
        // distinct addresses
        for a in 1..gens.len() {
            while gens[..a].iter().any(|g| g.plan.icao == gens[a].plan.icao) {
                gens[a].plan.icao = rng.range(1, 0xFF_FFFE) as u32;
            }
        }
        // receiver reference: within 38 NM of the surface point of aircraft 0
        // (when it has one), sometimes absent
        let reference = match gens[0].surface_point {
            Some((la, lo)) if rng.chance(0.9) => {
                let d = rng.frange(0.0, 30.0) * 1852.0;
                let (rla, rlo) = world::rhumb_step(la, lo, rng.frange(0.0, 360.0), d);
                Some((rla, rlo))
            }
            Some(_) => None,
            None => {
                if rng.chance(0.5) {
                    let (la, lo) = world::pick_start(rng);
                    Some((la, lo))
                } else {
                    None
                }
            }
        };
        let loss = if long { 0.0 } else { *rng.pick(&[0.0, 0.0, 0.1, 0.3, 0.6, 0.95]) };
        let heavy = !long && rng.chance(0.6);
        let mut all: Vec<Report> = Vec::new();
        for (a, g) in gens.iter().enumerate() {
            let r = emit_reports(rng, a as u8, g, max_reports);
            // directed scenarios keep their key reports
            let l = if a == 0 && kind >= 4 { 0.0 } else { loss };
            let h = if a == 0 && kind >= 4 { rng.chance(0.2) } else { heavy };
            all.extend(apply_channel_faults(rng, r, l, h));
        }
        if long {
            // further traffic until the recording has 33-40 thousand reports
            let target = rng.usize(33_000, 40_000);
            while all.len() < target && gens.len() < 250 {
                let mut g = gen_aircraft(rng, 0, max_reports);
                while gens.iter().any(|o| o.plan.icao == g.plan.icao) {
                    g.plan.icao = rng.range(1, 0xFF_FFFE) as u32;
                }
                let r = emit_reports(rng, gens.len() as u8, &g, max_reports);
                all.extend(apply_channel_faults(rng, r, 0.0, false));
                gens.push(g);
            }
        }
        // merge in timestamp order (ties: by aircraft), then local order swaps
        all.sort_by(|a, b| a.ts.partial_cmp(&b.ts).unwrap().then(a.ac.cmp(&b.ac)));
        if heavy {
            for i in 0..all.len().saturating_sub(1) {
                if rng.chance(0.03) && (all[i + 1].ts - all[i].ts).abs() <= 1.0 {
                    all.swap(i, i + 1);
                    if all[i].ac == all[i + 1].ac {
                        all[i].fault = 3;
                        all[i + 1].fault = 3;
                    }
                }
            }
        }
        let mut restarts = Vec::new();
        if !long && rng.chance(0.3) && !all.is_empty() {
            for _ in 0..rng.range(1, 3) {
                restarts.push(rng.usize(0, all.len() - 1));
            }
            restarts.sort();
            restarts.dedup();
        }
        C06Plan {
            aircraft: gens.into_iter().map(|g| g.plan).collect(),
            reference,
            restarts,
            reports: all,
            kind,
            dedup_ms: 0,
            chunks: Vec::new(),
            bad_before: Vec::new(),
        }
    }
    fn execute(&self, plan: &C06Plan) -> Outcome<C06Plan> {
        execute(plan)
    }
    fn shrink(&self, p: &C06Plan) -> Vec<C06Plan> {
        let mut out = Vec::new();
        // drop whole aircraft (and their reports)
        if p.aircraft.len() > 1 {
            for a in 0..p.aircraft.len() {
                let mut q = p.clone();
                // map restart indices
                let keep: Vec<usize> = (0..p.reports.len()).filter(|&i| p.reports[i].ac as usize != a).collect();
                q.restarts = p
                    .restarts
                    .iter()
                    .map(|&r| keep.iter().filter(|&&i| i < r).count())
                    .collect();
                q.restarts.dedup();
                q.reports = keep
                    .iter()
                    .map(|&i| {
                        let mut r = p.reports[i].clone();
                        if r.ac as usize > a {
                            r.ac -= 1;
                        }
                        r
                    })
                    .collect();
                q.aircraft.remove(a);
                out.push(q);
            }
        }
        if !p.restarts.is_empty() {
            let mut q = p.clone();
            q.restarts.clear();
            out.push(q);
        }
        // drop chunks of reports
        let n = p.reports.len();
        let mut chunk = n / 2;
        while chunk >= 1 && out.len() * (n + 1) < 3_000_000 {
            let mut i = 0;
            while i < n && out.len() * (n + 1) < 3_000_000 {
                let hi = (i + chunk).min(n);
                let mut q = p.clone();
                q.reports.drain(i..hi);
                q.restarts = p
                    .restarts
                    .iter()
                    .map(|&r| if r >= hi { r - (hi - i) } else if r > i { i } else { r })
                    .collect();
                q.restarts.dedup();
                out.push(q);
                i += chunk;
            }
            if chunk == 1 {
                break;
            }
            chunk /= 2;
        }
        // undo timestamp faults
        if p.reports.iter().any(|r| r.ts != r.t_enc) {
            let mut q = p.clone();
            for r in q.reports.iter_mut() {
                r.ts = r.t_enc;
                r.fault = 0;
            }
            q.reports.sort_by(|a, b| a.ts.partial_cmp(&b.ts).unwrap());
            q.restarts.clear();
            out.push(q);
        }
        if p.reference.is_some() {
            let mut q = p.clone();
            q.reference = None;
            out.push(q);
        }
        for a in 0..p.aircraft.len() {
            if p.aircraft[a].tisb {
                let mut q = p.clone();
                q.aircraft[a].tisb = false;
                out.push(q);
            }
        }
        out
    }
    fn meta(&self) -> Meta {
        Meta {
            level: "exploration",
            rule: "One run = one seeded air picture: 1-4 aircraft on piecewise constant-heading tracks (<= 700 kt; free flight, landing, take-off, taxi, and two directed families in which a blackout lasts exactly as long as the aircraft needs to travel one or two CPR zones), visibility windows and gaps biased to straddle 10 s and 180 s, independent loss, duplicates, swapped timestamps and delivery order of neighbours (<= 1 s), decoder restarts; reports are encoded by the driver's own CPR encoder and decoded by the real decode_position / decode_positions. Distinct = distinct hash of the fed history (aircraft, parity, air/ground, quantised gaps, faults, restart points, start cell). Non-trivial = at least one channel fault, gap > 9.5 s or restart occurred AND at least one position was attached and compared with the ground truth.",
            components: vec![
                ("rs1090::decode::cpr::decode_position (per-aircraft state, windows, gates)", "real"),
                ("rs1090::decode::cpr::decode_positions (batch driver)", "real"),
                ("rs1090 Message::try_from (frame decoding)", "real"),
                ("aircraft, transponder, CPR/altitude/CRC encoder", "stub (independent implementation of DO-260B, the ground truth)"),
                ("radio channel, receiver clock", "stub (loss, blackouts, duplicates, swaps)"),
                ("decoder process lifetime", "stub (state map dropped at restart points)"),
            ],
            assumptions: vec![
                "reports whose quantised latitude lies within 1e-6 degree of an NL transition latitude are not generated (the standard's table and formula disagree there)",
                "timing errors (swapped timestamps, duplicates) are bounded by 1 s, speeds by 700 kt, latitudes by +-89.5 degrees",
                "the receiver reference, when present, lies within 30 NM of the first surface point and surface segments are shorter than 11 km, so it is within 36 NM of every surface report (the property says 40 NM); only the first aircraft has surface segments",
                "update_reference is off (fixed receiver reference), as in the property",
            ],
            fault_kinds: vec![
                "loss_or_gap_over_9_5s",
                "gap_straddles_10s",
                "gap_straddles_180s",
                "gap_over_190s",
                "duplicate",
                "timestamp_swap",
                "order_swap",
                "decoder_restart",
                "restart_inside_pair",
            ],
            probes: vec![
                "positions_attached",
                "attached_airborne",
                "attached_surface",
                "reports_fed",
                "decoded_with_pair_age_9_10",
                "decoded_with_ref_age_170_180",
                "undecoded_despite_pair_gate_candidate",
                "surface_decoded_with_receiver_reference_only",
                "surface_after_airborne_decoded",
                "lon_wrap_180",
                "lat_above_85",
                "equator_crossed",
                "nl_transition_crossed",
                "directed_surface_alias",
                "directed_airborne_alias",
                "multi_aircraft",
                "tisb_aircraft",
                "skipped_near_nl_transition",
            ],
        }
    }
    fn sample(&self, p: &C06Plan) -> serde_json::Value {
        let mut q = p.clone();
        let n = q.reports.len();
        if n > 10 {
            q.reports.truncate(10);
        }
        let mut v = serde_json::to_value(&q).unwrap();
        v["reports_total"] = serde_json::json!(n);
        v
    }
}

struct Built {
    /// index into plan.reports
    idx: usize,
    msg: TimedMessage,
    truth: world::TruthPoint,
}

fn build(plan: &C06Plan, skipped: &mut u64) -> Result<Vec<Built>, String> {
    let mut v = Vec::new();
    for (i, r) in plan.reports.iter().enumerate() {
        let ac = &plan.aircraft[r.ac as usize % plan.aircraft.len()];
        let truth = ac.track.at(r.t_enc);
        // type code from the encoding instant, so that a duplicate delivery of a
        // report is the same frame byte for byte
        let sel = (r.t_enc * 1000.0) as u64;
        let _ = i;
        if r.tc == 255 {
            // type code 0: barometric altitude, no position
            let me: u64 = (world::ac12(truth.alt as i32, world::uses_gillham(ac.icao, truth.alt as i32)) as u64) << 36;
            let frame = world::df17(ac.icao, 5, me);
            match Message::try_from(frame.as_slice()) {
                Ok(message) => v.push(Built {
                    idx: i,
                    msg: TimedMessage { timestamp: exec::EPOCH_S as f64 + r.ts, frame, message: Some(message), metadata: vec![], decode_time: None },
                    truth,
                }),
                Err(e) => return Err(format!("type-code-0 frame {} built by the driver was rejected by the decoder: {:?}", world::hex(&frame), e)),
            }
            continue;
        }
        let (frame, enc) = if truth.surface {
            let tc = if (5..=8).contains(&r.tc) { r.tc } else { 5 + (sel % 4) as u8 };
            world::df17_surface_position(ac.icao, tc, truth.gs, truth.heading, truth.lat, truth.lon, r.odd)
        } else {
            let tc = if (9..=18).contains(&r.tc) || (20..=22).contains(&r.tc) { r.tc } else { [9u8, 10, 11, 12, 13, 14, 15, 16, 17, 18, 20, 21, 22][(sel % 13) as usize] };
            let alt = truth.alt as i32;
            world::df17_airborne_position_alt(ac.icao, tc, world::ac12(alt, world::uses_gillham(ac.icao, alt)), truth.lat, truth.lon, r.odd)
        };
        if world::nl_margin(enc.rlat) < 1e-6 {
            *skipped += 1;
            continue;
        }
        let frame = if ac.tisb {
            let mut b = frame[..11].to_vec();
            b[0] = (18 << 3) | 2;
            world::with_parity(&b)
        } else {
            frame
        };
        let message = match Message::try_from(frame.as_slice()) {
            Ok(m) => m,
            Err(e) => return Err(format!("frame {} built by the driver was rejected by the decoder: {:?}", world::hex(&frame), e)),
        };
        v.push(Built {
            idx: i,
            msg: TimedMessage {
                timestamp: exec::EPOCH_S as f64 + r.ts,
                frame,
                message: Some(message),
                metadata: vec![],
                decode_time: None,
            },
            truth,
        });
    }
    Ok(v)
}

fn clone_tm(m: &TimedMessage) -> TimedMessage {
    TimedMessage {
        timestamp: m.timestamp,
        frame: m.frame.clone(),
        message: m.message.clone(),
        metadata: vec![],
        decode_time: None,
    }
}

fn latlon(m: &TimedMessage) -> Option<(Option<f64>, Option<f64>)> {
    let me = match &m.message.as_ref()?.df {
        ExtendedSquitterADSB(adsb) => &adsb.message,
        ExtendedSquitterTisB { cf, .. } => &cf.me,
        _ => return None,
    };
    match me {
        ME::BDS05(p) => Some((p.latitude, p.longitude)),
        ME::BDS06(p) => Some((p.latitude, p.longitude)),
        _ => None,
    }
}

/// feed `msgs` one by one through the real decode_position, restarting the
/// decoder before the listed positions
fn feed_incremental(msgs: &mut [TimedMessage], restarts_before: &[usize], reference: Option<Position>) {
    let mut aircraft: BTreeMap<ICAO, AircraftState> = BTreeMap::new();
    let mut reference = reference;
    for (i, msg) in msgs.iter_mut().enumerate() {
        if restarts_before.contains(&i) {
            aircraft = BTreeMap::new();
        }
        let ts = msg.timestamp;
        if let Some(message) = &mut msg.message {
            match &mut message.df {
                ExtendedSquitterADSB(adsb) => {
                    let icao = adsb.icao24;
                    decode_position(&mut adsb.message, ts, &icao, &mut aircraft, &mut reference, &None)
                }
                ExtendedSquitterTisB { cf, .. } => {
                    let icao = cf.aa;
                    decode_position(&mut cf.me, ts, &icao, &mut aircraft, &mut reference, &None)
                }
                _ => {}
            }
        }
    }
}

pub fn execute(plan: &C06Plan) -> Outcome<C06Plan> {
    let mut out = Outcome::new();
    out.evaluations = 1;
    let mut skipped = 0u64;
    let built = match build(plan, &mut skipped) {
        Ok(b) => b,
        Err(e) => {
            out.harness_error = Some(e);
            return out;
        }
    };
    out.count("skipped_near_nl_transition", skipped);
    let reference = plan.reference.map(|(la, lo)| Position { latitude: la, longitude: lo });
    // restart positions in terms of the built (fed) sequence
    let restarts_before: Vec<usize> = plan
        .restarts
        .iter()
        .map(|&r| built.iter().filter(|b| b.idx < r).count())
        .filter(|&k| k > 0 && k < built.len())
        .collect();

    let mut viol: Option<Violation> = None;

    // run A: the whole history, incrementally
    let mut a: Vec<TimedMessage> = built.iter().map(|b| clone_tm(&b.msg)).collect();
    if let Err(p) = exec::catch("decode_position", || feed_incremental(&mut a, &restarts_before, reference)) {
        viol = Some(Violation::new(
            "c06.4-panic",
            p.short_loc(),
            format!("decode_position panicked at {}:{}: {}", p.file, p.line, p.msg),
        ));
    }

    // clause 1: every attached position within 25 m of the truth of that report
    let mut attached = 0u64;
    let mut dec: Vec<Option<(f64, f64)>> = Vec::with_capacity(a.len());
    for (k, m) in a.iter().enumerate() {
        let ll = latlon(m).unwrap_or((None, None));
        match ll {
            (Some(la), Some(lo)) => {
                attached += 1;
                dec.push(Some((la, lo)));
                let t = &built[k].truth;
                let d = world::gc_dist_m(la, lo, t.lat, t.lon);
                if viol.is_none() && (!(d <= 25.0) || !(-90.0..=90.0).contains(&la)) {
                    let r = &plan.reports[built[k].idx];
                    // locate: which branch could have produced it
                    let kind = if t.surface { "surface" } else { "airborne" };
                    // age of the previous attached position of the same aircraft
                    let mut prev_age = f64::INFINITY;
                    for j in (0..k).rev() {
                        if plan.reports[built[j].idx].ac == r.ac && dec[j].is_some() {
                            prev_age = a[k].timestamp - a[j].timestamp;
                            break;
                        }
                        if restarts_before.iter().any(|&rb| rb > j && rb <= k) {
                            break;
                        }
                    }
                    let age_class = if prev_age.is_infinite() {
                        "no-previous-position"
                    } else if prev_age < 180.0 {
                        "previous-position-younger-than-180s"
                    } else {
                        "previous-position-older-than-180s"
                    };
                    viol = Some(Violation::new(
                        "c06.1-wrong-position",
                        format!("{}/{}", kind, age_class),
                        format!(
                            "report #{} of aircraft {:06x} ({} {}, encoded at t={:.2}s, stamped {:.2}s) was given ({:.5}, {:.5}) but the aircraft was at ({:.5}, {:.5}): {:.0} m off; previous attached position of this aircraft was {:.1} s older",
                            built[k].idx,
                            plan.aircraft[r.ac as usize].icao,
                            kind,
                            if r.odd { "odd" } else { "even" },
                            r.t_enc,
                            r.ts,
                            la,
                            lo,
                            t.lat,
                            t.lon,
                            d,
                            prev_age
                        ),
                    ));
                }
            }
            (None, None) => dec.push(None),
            _ => {
                dec.push(None);
                if viol.is_none() {
                    viol = Some(Violation::new("c06.1-wrong-position", "half-position", format!("report #{} has only one of latitude/longitude", built[k].idx)));
                }
            }
        }
    }

    // clause 2: each aircraft alone gives bit-identical positions
    if viol.is_none() && plan.aircraft.len() > 1 {
        for ai in 0..plan.aircraft.len() {
            let sel: Vec<usize> = (0..built.len()).filter(|&k| plan.reports[built[k].idx].ac as usize == ai).collect();
            let mut alone: Vec<TimedMessage> = sel.iter().map(|&k| clone_tm(&built[k].msg)).collect();
            let rb: Vec<usize> = restarts_before
                .iter()
                .map(|&r| sel.iter().filter(|&&k| k < r).count())
                .filter(|&k| k > 0)
                .collect();
            if exec::catch("decode_position", || feed_incremental(&mut alone, &rb, reference)).is_err() {
                continue;
            }
            for (j, &k) in sel.iter().enumerate() {
                let x = latlon(&alone[j]).unwrap_or((None, None));
                let y = latlon(&a[k]).unwrap_or((None, None));
                let same = x.0.map(f64::to_bits) == y.0.map(f64::to_bits) && x.1.map(f64::to_bits) == y.1.map(f64::to_bits);
                if !same {
                    viol = Some(Violation::new(
                        "c06.2-interference",
                        "differs-when-alone",
                        format!(
                            "report #{} of aircraft {:06x}: {:?} when interleaved with other aircraft, {:?} when fed alone",
                            built[k].idx, plan.aircraft[ai].icao, y, x
                        ),
                    ));
                    break;
                }
            }
            if viol.is_some() {
                break;
            }
        }
    }

    // clause 3: the batch driver agrees with the incremental calls (per
    // segment between restarts: the batch driver starts from an empty state)
    if viol.is_none() {
        let mut bounds = vec![0usize];
        bounds.extend(restarts_before.iter().copied());
        bounds.push(built.len());
        bounds.dedup();
        let mut b: Vec<TimedMessage> = built.iter().map(|x| clone_tm(&x.msg)).collect();
        let r = exec::catch("decode_positions", || {
            for w in bounds.windows(2) {
                decode_positions(&mut b[w[0]..w[1]], reference, &None);
            }
        });
        match r {
            Err(p) => {
                viol = Some(Violation::new(
                    "c06.4-panic",
                    p.short_loc(),
                    format!("decode_positions panicked at {}:{}: {}", p.file, p.line, p.msg),
                ));
            }
            Ok(()) => {
                for k in 0..built.len() {
                    let x = latlon(&b[k]).unwrap_or((None, None));
                    let y = latlon(&a[k]).unwrap_or((None, None));
                    let same = x.0.map(f64::to_bits) == y.0.map(f64::to_bits) && x.1.map(f64::to_bits) == y.1.map(f64::to_bits);
                    if !same {
                        viol = Some(Violation::new(
                            "c06.3-batch",
                            "batch-differs",
                            format!("report #{}: {:?} from decode_positions, {:?} from incremental decode_position", built[k].idx, x, y),
                        ));
                        break;
                    }
                }
            }
        }
    }

    // ---- probes, counters, signature --------------------------------------
    let mut sig = Fnv::new();
    out.count("reports_fed", built.len() as u64);
    if built.len() > 32_768 {
        out.count("recording_longer_than_32768", 1);
    }
    if built.len() > 10_000 {
        out.count("recording_longer_than_10000", 1);
    }
    out.count("positions_attached", attached);
    if plan.aircraft.len() > 1 {
        out.count("multi_aircraft", 1);
    }
    if plan.aircraft.iter().any(|a| a.tisb) {
        out.count("tisb_aircraft", 1);
    }
    match plan.kind {
        4 => out.count("directed_surface_alias", 1),
        5 => out.count("directed_airborne_alias", 1),
        _ => {}
    }
    let mut faulty = !restarts_before.is_empty();
    out.count("decoder_restart", restarts_before.len() as u64);
    let n_ac = plan.aircraft.len();
    let mut last_fed: Vec<Option<usize>> = vec![None; n_ac];
    let mut last_dec: Vec<Option<usize>> = vec![None; n_ac];
    let mut last_par: Vec<[Option<usize>; 2]> = vec![[None, None]; n_ac];
    for k in 0..built.len() {
        let r = &plan.reports[built[k].idx];
        let ai = r.ac as usize % n_ac;
        let t = &built[k].truth;
        let ts = a[k].timestamp;
        if restarts_before.contains(&k) {
            for x in last_dec.iter_mut() {
                *x = None;
            }
            for x in last_par.iter_mut() {
                *x = [None, None];
            }
        }
        match r.fault {
            1 => {
                out.count("duplicate", 1);
                faulty = true;
            }
            2 => {
                out.count("timestamp_swap", 1);
                faulty = true;
            }
            3 => {
                out.count("order_swap", 1);
                faulty = true;
            }
            _ => {}
        }
        let gap = last_fed[ai].map(|j| ts - a[j].timestamp);
        let gq = match gap {
            None => 0u64,
            Some(g) if g < 0.0 => 1,
            Some(g) if g < 2.0 => 2,
            Some(g) if g < 9.5 => 3,
            Some(g) if g < 10.5 => {
                out.count("gap_straddles_10s", 1);
                4
            }
            Some(g) if g < 170.0 => 5,
            Some(g) if g < 190.0 => {
                out.count("gap_straddles_180s", 1);
                6
            }
            Some(_) => {
                out.count("gap_over_190s", 1);
                7
            }
        };
        if gq >= 4 {
            out.count("loss_or_gap_over_9_5s", 1);
            faulty = true;
        }
        if let (Some(j), true) = (last_fed[ai], restarts_before.iter().any(|&rb| last_fed[ai].map_or(false, |j| rb > j) && rb <= k)) {
            if ts - a[j].timestamp < 10.0 {
                out.count("restart_inside_pair", 1);
            }
        }
        let other = last_par[ai][(!r.odd) as usize];
        let pair_age = other.map(|j| ts - a[j].timestamp);
        if dec[k].is_some() {
            if t.surface {
                out.count("attached_surface", 1);
                match last_dec[ai] {
                    None => out.count("surface_decoded_with_receiver_reference_only", 1),
                    Some(j) => {
                        if !built[j].truth.surface {
                            out.count("surface_after_airborne_decoded", 1);
                        }
                    }
                }
            } else {
                out.count("attached_airborne", 1);
                if let Some(pa) = pair_age {
                    if pa > 9.0 && pa < 10.0 && last_dec[ai].map_or(true, |j| ts - a[j].timestamp >= 180.0) {
                        out.count("decoded_with_pair_age_9_10", 1);
                    }
                }
                if let Some(j) = last_dec[ai] {
                    let age = ts - a[j].timestamp;
                    if age > 170.0 && age < 180.0 {
                        out.count("decoded_with_ref_age_170_180", 1);
                    }
                }
            }
            if t.lon.abs() > 179.9 {
                out.count("lon_wrap_180", 1);
            }
            if t.lat.abs() > 85.0 {
                out.count("lat_above_85", 1);
            }
            if let Some(j) = last_dec[ai] {
                if built[j].truth.lat.signum() != t.lat.signum() {
                    out.count("equator_crossed", 1);
                }
                if world::nl(built[j].truth.lat) != world::nl(t.lat) {
                    out.count("nl_transition_crossed", 1);
                }
            }
            last_dec[ai] = Some(k);
        } else if !t.surface {
            if let (Some(pa), Some(j)) = (pair_age, last_dec[ai]) {
                if pa >= 0.0 && pa < 10.0 && world::gc_dist_m(built[j].truth.lat, built[j].truth.lon, t.lat, t.lon) > 50_000.0 {
                    out.count("undecoded_despite_pair_gate_candidate", 1);
                }
            }
        }
        last_fed[ai] = Some(k);
        last_par[ai][r.odd as usize] = Some(k);
        sig.u64(((ai as u64) << 12) | ((r.odd as u64) << 11) | ((t.surface as u64) << 10) | (gq << 4) | r.fault as u64);
        sig.u64(dec[k].is_some() as u64);
    }
    for rb in &restarts_before {
        sig.u64(0xAA00 | *rb as u64);
    }
    for ac in &plan.aircraft {
        // start cell (1 degree) so that the same shape elsewhere counts as distinct
        sig.u64(((ac.track.lat0.floor() as i64 + 90) as u64) << 10 | (ac.track.lon0.floor() as i64 + 180) as u64);
    }
    out.sigs.push(sig.0);
    if faulty && attached > 0 {
        out.nontrivial_sigs.push(sig.0);
    }
    out.sim_ns = (plan.reports.iter().map(|r| r.ts).fold(0.0, f64::max) * 1e9) as u64;
    out.steps = built.len() as u64;
    out.log_hash = {
        let mut f = Fnv::new();
        f.u64(sig.0);
        for d in &dec {
            match d {
                Some((la, lo)) => {
                    f.u64(la.to_bits());
                    f.u64(lo.to_bits());
                }
                None => f.u64(0),
            }
        }
        f.u64(viol.is_some() as u64);
        f.0
    };
    {
        let mut f = Fnv::new();
        f.u64(attached);
        f.u64(built.len() as u64);
        out.oracle_states.push(f.0);
    }
    out.violation = viol;
    out
}


// ======================================================================
// Secondary subject: decode1090, the offline decoder. Its main() drives the
// same stateful decoder from its own call site (inlined deduplication in front
// of it, `update_reference` on, reference given on the command line) and can
// only be run as a process: the generated history is written as a JSONL file,
// the real binary is executed on it, and clause 1 is applied to the positions
// it prints. Deterministic: one task, no clock.

pub struct Decode1090Pos;

impl Scenario for Decode1090Pos {
    type Plan = C06Plan;
    fn id(&self) -> &'static str {
        "C06"
    }
    fn kind(&self) -> &'static str {
        "decode1090"
    }
    fn seed_tag(&self) -> String {
        "C06/decode1090".to_string()
    }
    fn runs(&self, tier: Tier) -> u64 {
        match tier {
            Tier::Quick => 2_000,
            Tier::Thorough => 100_000,
        }
    }
    fn generate(&self, rng: &mut Rng, tier: Tier, idx: u64) -> C06Plan {
        let mut p = C06.generate(rng, tier, idx);
        p.restarts.clear(); // one process, one state map
        p.dedup_ms = *rng.pick(&[0u32, 0, 400, 400, 50]);
        p
    }
    fn execute(&self, plan: &C06Plan) -> Outcome<C06Plan> {
        execute_decode1090(plan)
    }
    fn shrink(&self, p: &C06Plan) -> Vec<C06Plan> {
        let mut v = C06.shrink(p);
        if p.dedup_ms != 0 {
            let mut q = p.clone();
            q.dedup_ms = 0;
            v.insert(0, q);
        }
        v
    }
    fn meta(&self) -> Meta {
        Meta {
            level: "exploration",
            rule: "One run = one generated air picture (same generator as the focused scenario, no restarts) written as a JSONL file and decoded by the real decode1090 binary (JSONL reader, inlined deduplication with a window of 0/50/400 ms, its own call of decode_position with update_reference on, JSON output); every latitude/longitude it prints is compared with the ground truth of the report it is printed for. Distinct = distinct hash of the fed history. Non-trivial = at least one channel fault or gap > 9.5 s occurred AND at least one printed position was compared.",
            components: vec![
                ("decode1090 binary (main(): JSONL reader, deduplication, process_entries -> decode_position, JSON output)", "real (separate process)"),
                ("aircraft, transponder, encoder, channel", "stub (same world as the focused scenario)"),
                ("input file", "stub (written by the driver before the process starts; no I/O faults injected)"),
            ],
            assumptions: vec![
                "decode1090 moves its reference to any airborne position decoded below 1000 ft (update_reference); the driver tracks that reference from the printed positions and the altitudes as the transponders sent them (25 ft code, or the 100 ft Gillham code above 50175 ft and for one address in nine) and judges a surface position only while the reference in force lies within 40 NM of the aircraft, as the property's quantifier states",
                "printed coordinates are compared after the JSON text round trip (no tolerance needed at 25 m)",
            ],
            fault_kinds: vec!["loss_or_gap_over_9_5s", "duplicate", "timestamp_swap", "order_swap", "merged_by_dedup"],
            probes: vec!["records_printed", "positions_printed", "positions_checked", "surface_checked", "surface_skipped_reference_moved_away", "reference_moved"],
        }
    }
    fn sample(&self, p: &C06Plan) -> serde_json::Value {
        C06.sample(p)
    }
}

pub fn execute_decode1090(plan: &C06Plan) -> Outcome<C06Plan> {
    let mut out = Outcome::new();
    out.evaluations = 1;
    let Ok(bin) = std::env::var("VERIF_DECODE1090") else {
        out.harness_error = Some("VERIF_DECODE1090 (path of the decode1090 binary) is not set".to_string());
        return out;
    };
    let mut skipped = 0u64;
    let built = match build(plan, &mut skipped) {
        Ok(b) => b,
        Err(e) => {
            out.harness_error = Some(e);
            return out;
        }
    };
    let mut text = String::new();
    for (k, b) in built.iter().enumerate() {
        text.push_str(&format!(
            "{{\"timestamp\":{:?},\"frame\":\"{}\",\"metadata\":[{{\"system_timestamp\":{:?},\"serial\":{},\"name\":\"sim\"}}]}}\n",
            b.msg.timestamp,
            world::hex(&b.msg.frame),
            b.msg.timestamp,
            k
        ));
    }
    let mut h = Fnv::new();
    h.bytes(text.as_bytes());
    h.u64(plan.dedup_ms as u64);
    let dir = std::env::var("VERIF_SCRATCH").unwrap_or_else(|_| "/verif/.target/scratch".to_string());
    let _ = std::fs::create_dir_all(&dir);
    let path = format!("{}/c06-{:016x}-{:?}.jsonl", dir, h.0, std::thread::current().id());
    if let Err(e) = std::fs::write(&path, &text) {
        out.harness_error = Some(format!("cannot write {}: {}", path, e));
        return out;
    }
    let mut args: Vec<String> = vec!["-i".into(), path.clone(), "-d".into(), plan.dedup_ms.to_string()];
    if let Some((la, lo)) = plan.reference {
        args.push(format!("--reference={:.7},{:.7}", la, lo));
    }
    let res = std::process::Command::new(&bin).args(&args).output();
    let _ = std::fs::remove_file(&path);
    let o = match res {
        Ok(o) => o,
        Err(e) => {
            out.harness_error = Some(format!("cannot run {}: {}", bin, e));
            return out;
        }
    };
    let mut viol: Option<Violation> = None;
    if !o.status.success() {
        let err = String::from_utf8_lossy(&o.stderr);
        viol = Some(Violation::new(
            "c06.4-panic",
            "decode1090-exit",
            format!("decode1090 exited with {:?}: {}", o.status.code(), err.lines().find(|l| l.contains("panicked")).unwrap_or("")),
        ));
    }
    // the reference in force, tracked from what the process printed (it moves
    // to every airborne position decoded below 1000 ft)
    let mut reference: Option<(f64, f64)> = plan.reference.map(|(la, lo)| (((la * 1e7).round()) / 1e7, ((lo * 1e7).round()) / 1e7));
    let mut printed = 0u64;
    let mut compared = 0u64;
    let mut faulty = false;
    for line in String::from_utf8_lossy(&o.stdout).lines() {
        let Ok(v) = serde_json::from_str::<serde_json::Value>(line) else { continue };
        out.count("records_printed", 1);
        let members = v["metadata"].as_array().map(|a| a.len()).unwrap_or(0);
        if members > 1 {
            out.count("merged_by_dedup", 1);
        }
        let Some(k) = v["metadata"][0]["serial"].as_u64().map(|x| x as usize) else { continue };
        let Some(b) = built.get(k) else { continue };
        let (la, lo) = (v["latitude"].as_f64(), v["longitude"].as_f64());
        match (la, lo) {
            (Some(la), Some(lo)) => {
                printed += 1;
                let t = &b.truth;
                let mut judge = true;
                if t.surface {
                    if let Some((rla, rlo)) = reference {
                        if world::gc_dist_m(rla, rlo, t.lat, t.lon) > 40.0 * 1852.0 {
                            judge = false;
                            out.count("surface_skipped_reference_moved_away", 1);
                        }
                    }
                }
                if judge {
                    compared += 1;
                    if t.surface {
                        out.count("surface_checked", 1);
                    }
                    let d = world::gc_dist_m(la, lo, t.lat, t.lon);
                    if viol.is_none() && (!(d <= 25.0) || !(-90.0..=90.0).contains(&la)) {
                        let r = &plan.reports[b.idx];
                        viol = Some(Violation::new(
                            "c06.1-wrong-position",
                            format!("decode1090/{}", if t.surface { "surface" } else { "airborne" }),
                            format!(
                                "decode1090 printed ({:.5}, {:.5}) for report #{} of aircraft {:06x} (encoded at t={:.2}s), the aircraft was at ({:.5}, {:.5}): {:.0} m off",
                                la, lo, b.idx, plan.aircraft[r.ac as usize % plan.aircraft.len()].icao, r.t_enc, t.lat, t.lon, d
                            ),
                        ));
                    }
                }
                // (the altitude as the transponder sent it, not as printed: a
                // reference moved by a misread altitude is no excuse)
                let alt = t.alt as i32;
                let icao = plan.aircraft[plan.reports[b.idx].ac as usize % plan.aircraft.len()].icao;
                if !t.surface && world::altitude_as_sent(alt, world::uses_gillham(icao, alt)).map_or(false, |a| a < 1000) {
                    reference = Some((la, lo));
                    out.count("reference_moved", 1);
                }
            }
            (None, None) => {}
            _ => {
                if viol.is_none() {
                    viol = Some(Violation::new("c06.1-wrong-position", "half-position", format!("decode1090 printed only one of latitude/longitude for report #{}", b.idx)));
                }
            }
        }
    }
    out.count("positions_printed", printed);
    out.count("positions_checked", compared);
    // fault counters from the plan
    let mut last_ts: Vec<Option<f64>> = vec![None; plan.aircraft.len()];
    let mut sig = Fnv::new();
    for b in &built {
        let r = &plan.reports[b.idx];
        let ai = r.ac as usize % plan.aircraft.len();
        match r.fault {
            1 => {
                out.count("duplicate", 1);
                faulty = true;
            }
            2 => {
                out.count("timestamp_swap", 1);
                faulty = true;
            }
            3 => {
                out.count("order_swap", 1);
                faulty = true;
            }
            _ => {}
        }
        let gap = last_ts[ai].map(|t| r.ts - t).unwrap_or(0.0);
        if gap >= 9.5 {
            out.count("loss_or_gap_over_9_5s", 1);
            faulty = true;
        }
        last_ts[ai] = Some(r.ts);
        sig.u64(((ai as u64) << 40) | ((r.odd as u64) << 39) | ((b.truth.surface as u64) << 38) | ((gap.min(4000.0) * 10.0) as u64) << 4 | r.fault as u64);
    }
    sig.u64(plan.dedup_ms as u64);
    for ac in &plan.aircraft {
        sig.u64(((ac.track.lat0.floor() as i64 + 90) as u64) << 10 | (ac.track.lon0.floor() as i64 + 180) as u64);
    }
    out.sigs.push(sig.0);
    if faulty && compared > 0 {
        out.nontrivial_sigs.push(sig.0);
    }
    out.steps = built.len() as u64;
    out.sim_ns = (plan.reports.iter().map(|r| r.ts).fold(0.0, f64::max) * 1e9) as u64;
    out.log_hash = {
        let mut f = Fnv::new();
        f.bytes(&o.stdout);
        f.u64(viol.is_some() as u64);
        f.0
    };
    out.violation = viol;
    out
}


// ======================================================================
// Secondary subject: the python binding's decode_1090t_vec, the third call site
// of the stateful decoder (parallel parsing of chunks, then decode_positions
// over the concatenation). The function is private to a cdylib crate: hook H7
// compiles a small entry point into that crate's unit-test binary, which is run
// as a process on the generated history (chunked, with undecodable frames in
// between) and prints the positions of the records it returns.

pub struct PyBinding;

impl Scenario for PyBinding {
    type Plan = C06Plan;
    fn id(&self) -> &'static str {
        "C06"
    }
    fn kind(&self) -> &'static str {
        "python"
    }
    fn seed_tag(&self) -> String {
        "C06/python".to_string()
    }
    fn runs(&self, tier: Tier) -> u64 {
        match tier {
            Tier::Quick => 1_500,
            Tier::Thorough => 60_000,
        }
    }
    fn generate(&self, rng: &mut Rng, tier: Tier, idx: u64) -> C06Plan {
        let mut p = C06.generate(rng, tier, idx);
        p.restarts.clear();
        let n = p.reports.len();
        let mut left = n;
        while left > 0 {
            let c = match rng.below(6) {
                0 => 0,
                1 => 1,
                2 => rng.usize(1, 5),
                _ => rng.usize(1, 60),
            }
            .min(left);
            p.chunks.push(c as u16);
            left -= c;
        }
        if rng.chance(0.6) {
            for _ in 0..rng.usize(1, 4) {
                p.bad_before.push(rng.below(n as u64 + 1) as u32);
            }
            p.bad_before.sort();
        }
        p
    }
    fn execute(&self, plan: &C06Plan) -> Outcome<C06Plan> {
        execute_python(plan)
    }
    fn shrink(&self, p: &C06Plan) -> Vec<C06Plan> {
        let mut v = Vec::new();
        if !p.bad_before.is_empty() {
            let mut q = p.clone();
            q.bad_before.clear();
            v.push(q);
            for j in 0..p.bad_before.len() {
                let mut q = p.clone();
                q.bad_before.remove(j);
                v.push(q);
            }
        }
        if p.chunks.len() > 1 {
            let mut q = p.clone();
            q.chunks = vec![u16::MAX];
            v.push(q);
        }
        // (dropping reports shifts the indices of the undecodable frames: they
        // are clamped at run time)
        v.extend(C06.shrink(p));
        v
    }
    fn meta(&self) -> Meta {
        Meta {
            level: "exploration",
            rule: "One run = one generated air picture (same generator as the focused scenario, no restarts) handed to the python binding's real decode_1090t_vec as chunks of (frame, timestamp) lists of seeded sizes (empty chunks, single-message chunks, chunks of dozens), with undecodable frames carrying their own timestamps inserted at seeded places; the function runs in a separate process (hook H7) and every position of the records it returns is compared with the ground truth of the report the record stands for. Distinct = distinct hash of the fed history and chunking. Non-trivial = at least one channel fault, gap > 9.5 s or undecodable frame occurred AND at least one position was compared.",
            components: vec![
                ("python binding: decode_1090t_vec (parallel chunk parsing with rayon, concatenation, decode_positions)", "real (separate process; unit-test binary of the rs1090-python crate, hook H7)"),
                ("pickle output", "real (serde_pickle), read back by the process-side driver"),
                ("aircraft, transponder, encoder, channel", "stub (same world as the focused scenario)"),
                ("Python interpreter / PyO3 call boundary", "stub (the function is called from Rust; it touches no Python object)"),
            ],
            assumptions: vec!["the k-th record returned stands for the k-th decodable frame handed over (the function keeps the order and drops what does not decode)"],
            fault_kinds: vec!["loss_or_gap_over_9_5s", "duplicate", "timestamp_swap", "order_swap", "undecodable_frame_in_chunk", "empty_chunk"],
            probes: vec!["records_returned", "positions_returned", "positions_checked", "chunks"],
        }
    }
    fn sample(&self, p: &C06Plan) -> serde_json::Value {
        C06.sample(p)
    }
}

pub fn execute_python(plan: &C06Plan) -> Outcome<C06Plan> {
    let mut out = Outcome::new();
    out.evaluations = 1;
    let Ok(bin) = std::env::var("VERIF_PYSUBJECT") else {
        out.harness_error = Some("VERIF_PYSUBJECT (path of the python binding's test binary) is not set".to_string());
        return out;
    };
    let mut skipped = 0u64;
    let built = match build(plan, &mut skipped) {
        Ok(b) => b,
        Err(e) => {
            out.harness_error = Some(e);
            return out;
        }
    };
    // the messages handed over: the built reports, with undecodable frames in between
    enum Item {
        Report(usize),
        Bad(f64),
    }
    let mut items: Vec<Item> = Vec::new();
    let mut bi = 0usize;
    for (k, b) in built.iter().enumerate() {
        while bi < plan.bad_before.len() && (plan.bad_before[bi] as usize) <= b.idx {
            // stamped like its neighbour
            items.push(Item::Bad(b.msg.timestamp - 0.01));
            bi += 1;
        }
        items.push(Item::Report(k));
    }
    let last_ts = built.last().map(|b| b.msg.timestamp).unwrap_or(exec::EPOCH_S as f64);
    while bi < plan.bad_before.len() {
        items.push(Item::Bad(last_ts + 0.01));
        bi += 1;
    }
    let n_bad = items.iter().filter(|i| matches!(i, Item::Bad(_))).count() as u64;
    out.count("undecodable_frame_in_chunk", n_bad);
    let mut text = String::new();
    match plan.reference {
        Some((la, lo)) => text.push_str(&format!("ref {:?} {:?}\n", la, lo)),
        None => text.push_str("noref\n"),
    }
    let mut ci = 0usize;
    let mut in_chunk = 0usize;
    let mut chunk_left: usize = plan.chunks.first().copied().unwrap_or(u16::MAX) as usize;
    text.push_str("chunk\n");
    let mut n_chunks = 1u64;
    for it in &items {
        while chunk_left == 0 {
            if in_chunk == 0 {
                out.count("empty_chunk", 1);
            }
            ci += 1;
            chunk_left = plan.chunks.get(ci).copied().unwrap_or(u16::MAX) as usize;
            text.push_str("chunk\n");
            n_chunks += 1;
            in_chunk = 0;
        }
        match it {
            Item::Report(k) => text.push_str(&format!("m {:?} {}\n", built[*k].msg.timestamp, world::hex(&built[*k].msg.frame))),
            // a DF17 whose parity does not check
            Item::Bad(ts) => text.push_str(&format!("m {:?} 8d406b902015a678d4d220aa4bdb\n", ts)),
        }
        chunk_left -= 1;
        in_chunk += 1;
    }
    out.count("chunks", n_chunks);
    let mut h = Fnv::new();
    h.bytes(text.as_bytes());
    let dir = std::env::var("VERIF_SCRATCH").unwrap_or_else(|_| "/verif/.target/scratch".to_string());
    let _ = std::fs::create_dir_all(&dir);
    let path = format!("{}/c06py-{:016x}-{:?}.txt", dir, h.0, std::thread::current().id());
    if let Err(e) = std::fs::write(&path, &text) {
        out.harness_error = Some(format!("cannot write {}: {}", path, e));
        return out;
    }
    let res = std::process::Command::new(&bin)
        .args(["verif::verif_py_entry", "--exact", "--nocapture", "--test-threads=1"])
        .env("VERIF_PY_INPUT", &path)
        .env("RAYON_NUM_THREADS", "2")
        .output();
    let _ = std::fs::remove_file(&path);
    let o = match res {
        Ok(o) => o,
        Err(e) => {
            out.harness_error = Some(format!("cannot run {}: {}", bin, e));
            return out;
        }
    };
    let mut viol: Option<Violation> = None;
    let stdout = String::from_utf8_lossy(&o.stdout).to_string();
    if !o.status.success() {
        let all = format!("{}{}", stdout, String::from_utf8_lossy(&o.stderr));
        let line = all.lines().find(|l| l.contains("panicked")).unwrap_or("").to_string();
        if line.contains("/verif/") {
            out.harness_error = Some(format!("process-side driver failed: {}", line));
            return out;
        }
        viol = Some(Violation::new("c06.4-panic", "python-binding-exit", format!("decode_1090t_vec's process exited with {:?}: {}", o.status.code(), line)));
    }
    let recs: Vec<Vec<&str>> = stdout.lines().filter(|l| l.starts_with("r ")).map(|l| l.split_whitespace().collect()).collect();
    out.count("records_returned", recs.len() as u64);
    if viol.is_none() && recs.len() != built.len() {
        viol = Some(Violation::new(
            "c06.3-batch",
            "python-record-count",
            format!("decode_1090t_vec returned {} records for {} decodable frames", recs.len(), built.len()),
        ));
    }
    let mut compared = 0u64;
    let mut faulty = n_bad > 0;
    if viol.is_none() {
        for (k, r) in recs.iter().enumerate() {
            let b = &built[k];
            if r.len() < 5 || r[2] != world::hex(&b.msg.frame) {
                viol = Some(Violation::new("c06.3-batch", "python-record-order", format!("record #{} returned by decode_1090t_vec is frame {}, the {}-th decodable frame handed over is {}", k, r.get(2).unwrap_or(&"?"), k, world::hex(&b.msg.frame))));
                break;
            }
            let (la, lo) = (r[3].parse::<f64>().ok(), r[4].parse::<f64>().ok());
            if let (Some(la), Some(lo)) = (la, lo) {
                out.count("positions_returned", 1);
                compared += 1;
                let t = &b.truth;
                let d = world::gc_dist_m(la, lo, t.lat, t.lon);
                if !(d <= 25.0) {
                    let rep = &plan.reports[b.idx];
                    viol = Some(Violation::new(
                        "c06.1-wrong-position",
                        format!("python/{}", if t.surface { "surface" } else { "airborne" }),
                        format!(
                            "decode_1090t_vec gave ({:.5}, {:.5}) to report #{} of aircraft {:06x} (encoded at t={:.2}s; returned with timestamp {}), the aircraft was at ({:.5}, {:.5}): {:.0} m off",
                            la, lo, b.idx, plan.aircraft[rep.ac as usize % plan.aircraft.len()].icao, rep.t_enc, r[1], t.lat, t.lon, d
                        ),
                    ));
                    break;
                }
            }
        }
    }
    out.count("positions_checked", compared);
    let mut last_ts: Vec<Option<f64>> = vec![None; plan.aircraft.len()];
    let mut sig = Fnv::new();
    for b in &built {
        let r = &plan.reports[b.idx];
        let ai = r.ac as usize % plan.aircraft.len();
        match r.fault {
            1 => {
                out.count("duplicate", 1);
                faulty = true;
            }
            2 => {
                out.count("timestamp_swap", 1);
                faulty = true;
            }
            3 => {
                out.count("order_swap", 1);
                faulty = true;
            }
            _ => {}
        }
        let gap = last_ts[ai].map(|t| r.ts - t).unwrap_or(0.0);
        if gap >= 9.5 {
            out.count("loss_or_gap_over_9_5s", 1);
            faulty = true;
        }
        last_ts[ai] = Some(r.ts);
        sig.u64(((ai as u64) << 40) | ((r.odd as u64) << 39) | ((b.truth.surface as u64) << 38) | ((gap.min(4000.0) * 10.0) as u64) << 4 | r.fault as u64);
    }
    for c in &plan.chunks {
        sig.u64(*c as u64);
    }
    for b in &plan.bad_before {
        sig.u64(0xBAD0_0000 | *b as u64);
    }
    out.sigs.push(sig.0);
    if faulty && compared > 0 {
        out.nontrivial_sigs.push(sig.0);
    }
    out.steps = built.len() as u64;
    out.sim_ns = (plan.reports.iter().map(|r| r.ts).fold(0.0, f64::max) * 1e9) as u64;
    out.log_hash = {
        // (the test harness around the entry point prints wall-clock timings)
        let mut f = Fnv::new();
        for l in stdout.lines().filter(|l| l.starts_with("r ") || l.starts_with("end ")) {
            f.bytes(l.as_bytes());
        }
        f.u64(viol.is_some() as u64);
        f.0
    };
    out.violation = viol;
    out
}
