// Batch runner: seeded search over plans, shrinking, replay files, known
// findings, evidence.

use super::exec;
use super::rng::{run_seed, Rng};
use serde::de::DeserializeOwned;
use serde::{Deserialize, Serialize};
use serde_json::{json, Value};
use std::collections::{BTreeMap, HashSet};
use std::sync::atomic::{AtomicU64, Ordering};
use std::sync::Mutex;
use std::time::Instant;

#[derive(Clone, Copy, PartialEq, Debug)]
pub enum Tier {
    Quick,
    Thorough,
}
impl Tier {
    pub fn name(&self) -> &'static str {
        match self {
            Tier::Quick => "quick",
            Tier::Thorough => "thorough",
        }
    }
}

#[derive(Clone, Debug, Serialize, Deserialize, PartialEq)]
pub struct Violation {
    /// oracle clause that failed (e.g. "c09.1-prefix")
    pub class: String,
    /// the specific thing that fails, stable under shrinking
    pub locator: String,
    /// free text for the reader
    pub detail: String,
}
impl Violation {
    pub fn new(class: &str, locator: impl Into<String>, detail: impl Into<String>) -> Violation {
        Violation {
            class: class.to_string(),
            locator: locator.into(),
            detail: detail.into(),
        }
    }
    pub fn key(&self) -> String {
        format!("{}|{}", self.class, self.locator)
    }
}

#[derive(Default)]
pub struct Outcome<P> {
    pub violation: Option<Violation>,
    /// a plan, narrower than the executed one, that reproduces `violation`
    /// (e.g. the one chunking out of an enumeration)
    pub narrowed: Option<P>,
    pub harness_error: Option<String>,
    pub counters: Vec<(&'static str, u64)>,
    /// schedule-and-fault signature(s) of the execution(s) of this run
    pub sigs: Vec<u64>,
    /// how many of `sigs` belong to non-trivial executions (see the rule text)
    pub nontrivial_sigs: Vec<u64>,
    pub evaluations: u64,
    pub sim_ns: u64,
    pub steps: u64,
    /// hash of everything observable about the run (determinism check)
    pub log_hash: u64,
    pub oracle_states: Vec<u64>,
    pub sched_policy: &'static str,
}

impl<P> Outcome<P> {
    pub fn new() -> Outcome<P> {
        Outcome {
            violation: None,
            narrowed: None,
            harness_error: None,
            counters: Vec::new(),
            sigs: Vec::new(),
            nontrivial_sigs: Vec::new(),
            evaluations: 0,
            sim_ns: 0,
            steps: 0,
            log_hash: 0,
            oracle_states: Vec::new(),
            sched_policy: "n/a",
        }
    }
    pub fn count(&mut self, name: &'static str, n: u64) {
        if n == 0 {
            return;
        }
        for c in self.counters.iter_mut() {
            if c.0 == name {
                c.1 += n;
                return;
            }
        }
        self.counters.push((name, n));
    }
}

pub struct Meta {
    pub level: &'static str,
    pub rule: &'static str,
    pub components: Vec<(&'static str, &'static str)>,
    pub assumptions: Vec<&'static str>,
    pub fault_kinds: Vec<&'static str>,
    pub probes: Vec<&'static str>,
}

pub trait Scenario: Sync {
    type Plan: Serialize + DeserializeOwned + Clone + Send + 'static;
    fn id(&self) -> &'static str;
    /// "focused" or "pipeline": which plan type a replay file of this scenario holds
    fn kind(&self) -> &'static str {
        "focused"
    }
    /// tag mixed into the run seeds (differs between the scenarios of one property)
    fn seed_tag(&self) -> String {
        self.id().to_string()
    }
    fn runs(&self, tier: Tier) -> u64;
    fn generate(&self, rng: &mut Rng, tier: Tier, run_index: u64) -> Self::Plan;
    fn execute(&self, plan: &Self::Plan) -> Outcome<Self::Plan>;
    /// candidate simplifications of `plan`, simplest / most aggressive first
    fn shrink(&self, plan: &Self::Plan) -> Vec<Self::Plan>;
    fn meta(&self) -> Meta;
    fn sample(&self, plan: &Self::Plan) -> Value {
        serde_json::to_value(plan).unwrap_or(Value::Null)
    }
    /// true when the whole generated space was enumerated (never, for seeded search)
    fn exhaustive(&self, _tier: Tier) -> bool {
        false
    }
}

#[derive(Serialize, Deserialize, Clone, Debug)]
pub struct KnownFinding {
    pub property: String,
    /// "known" or "fixed"
    pub status: String,
    pub class: String,
    /// exact locator, or a prefix when it ends with '*'
    pub locator: String,
    #[serde(default)]
    pub commit: Option<String>,
    pub text: String,
}

pub struct Env {
    pub verif_dir: String,
    pub seed: u64,
    pub tier: Tier,
    pub workers: usize,
    pub runs_override: Option<u64>,
    pub budget_s: f64,
}

impl Env {
    pub fn from_env() -> Env {
        let verif_dir = std::env::var("VERIF_DIR").unwrap_or_else(|_| "/verif".into());
        let seed = std::env::var("VERIF_SEED")
            .ok()
            .and_then(|s| s.trim().parse::<u64>().ok())
            .unwrap_or(1);
        let tier = match std::env::var("VERIF_TIER").as_deref() {
            Ok("thorough") => Tier::Thorough,
            _ => Tier::Quick,
        };
        let workers = std::env::var("VERIF_WORKERS")
            .ok()
            .and_then(|s| s.parse::<usize>().ok())
            .unwrap_or_else(|| {
                std::thread::available_parallelism()
                    .map(|n| n.get())
                    .unwrap_or(4)
                    .min(16)
            })
            .max(1);
        let runs_override = std::env::var("VERIF_RUNS").ok().and_then(|s| s.parse().ok());
        let budget_s = std::env::var("VERIF_BUDGET_S")
            .ok()
            .and_then(|s| s.parse().ok())
            .unwrap_or(match tier {
                Tier::Quick => 240.0,
                Tier::Thorough => 1500.0,
            });
        Env {
            verif_dir,
            seed,
            tier,
            workers,
            runs_override,
            budget_s,
        }
    }
    pub fn known_findings(&self) -> Vec<KnownFinding> {
        let p = format!("{}/known_findings.json", self.verif_dir);
        match std::fs::read_to_string(&p) {
            Ok(s) => match serde_json::from_str::<Vec<KnownFinding>>(&s) {
                Ok(v) => v,
                Err(e) => {
                    eprintln!("HARNESS-ERROR: cannot parse {}: {}", p, e);
                    std::process::exit(2);
                }
            },
            Err(_) => Vec::new(),
        }
    }
}

#[derive(Serialize, Deserialize)]
pub struct ReplayFile {
    pub property: String,
    /// "focused" (the property's own scenario) or "pipeline"
    #[serde(default = "focused_name")]
    pub scenario: String,
    pub batch_seed: u64,
    pub run_index: u64,
    pub tier: String,
    pub violation: Violation,
    pub shrink_steps: u64,
    pub plan: Value,
}

fn focused_name() -> String {
    "focused".to_string()
}

struct Acc {
    counters: BTreeMap<&'static str, u64>,
    sigs: HashSet<u64>,
    nontrivial: HashSet<u64>,
    oracle_states: HashSet<u64>,
    policies: BTreeMap<&'static str, u64>,
    evaluations: u64,
    runs: u64,
    sim_ns: u128,
    steps: u64,
    harness_errors: Vec<(u64, String)>,
    // key -> (run index, violation)
    violations: BTreeMap<String, (u64, Violation)>,
    // key -> a few more run indices showing the same violation (fallback when
    // the first one only fails because of state left over in the process)
    more_runs: BTreeMap<String, Vec<u64>>,
    violating_runs: u64,
}
impl Acc {
    fn new() -> Acc {
        Acc {
            counters: BTreeMap::new(),
            sigs: HashSet::new(),
            nontrivial: HashSet::new(),
            oracle_states: HashSet::new(),
            policies: BTreeMap::new(),
            evaluations: 0,
            runs: 0,
            sim_ns: 0,
            steps: 0,
            harness_errors: Vec::new(),
            violations: BTreeMap::new(),
            more_runs: BTreeMap::new(),
            violating_runs: 0,
        }
    }
    fn add<P>(&mut self, idx: u64, o: Outcome<P>) {
        self.runs += 1;
        self.evaluations += o.evaluations.max(1);
        self.sim_ns += o.sim_ns as u128;
        self.steps += o.steps;
        for (k, v) in o.counters {
            *self.counters.entry(k).or_insert(0) += v;
        }
        // per-worker cap; distinct counts are therefore conservative (under-counted) on huge batches
        const CAP: usize = 600_000;
        for s in o.sigs {
            if self.sigs.len() < CAP {
                self.sigs.insert(s);
            }
        }
        for s in o.nontrivial_sigs {
            if self.nontrivial.len() < CAP {
                self.nontrivial.insert(s);
            }
        }
        for s in o.oracle_states {
            if self.oracle_states.len() < CAP {
                self.oracle_states.insert(s);
            }
        }
        *self.policies.entry(o.sched_policy).or_insert(0) += 1;
        if let Some(e) = o.harness_error {
            if self.harness_errors.len() < 5 {
                self.harness_errors.push((idx, e));
            }
        }
        if let Some(v) = o.violation {
            self.violating_runs += 1;
            let k = v.key();
            {
                let e = self.more_runs.entry(k.clone()).or_default();
                if e.len() < 6 {
                    e.push(idx);
                }
            }
            match self.violations.get(&k) {
                Some((i, _)) if *i <= idx => {}
                _ => {
                    if self.violations.len() < 64 || self.violations.contains_key(&k) {
                        self.violations.insert(k, (idx, v));
                    }
                }
            }
        }
    }
    fn merge(&mut self, o: Acc) {
        self.runs += o.runs;
        self.evaluations += o.evaluations;
        self.sim_ns += o.sim_ns;
        self.steps += o.steps;
        self.violating_runs += o.violating_runs;
        for (k, v) in o.counters {
            *self.counters.entry(k).or_insert(0) += v;
        }
        self.sigs.extend(o.sigs);
        self.nontrivial.extend(o.nontrivial);
        self.oracle_states.extend(o.oracle_states);
        for (k, v) in o.policies {
            *self.policies.entry(k).or_insert(0) += v;
        }
        self.harness_errors.extend(o.harness_errors);
        for (k, v) in o.more_runs {
            let e = self.more_runs.entry(k).or_default();
            e.extend(v);
            e.sort();
            e.truncate(8);
        }
        for (k, (i, v)) in o.violations {
            match self.violations.get(&k) {
                Some((j, _)) if *j <= i => {}
                _ => {
                    self.violations.insert(k, (i, v));
                }
            }
        }
    }
}

pub fn plan_of<S: Scenario>(sc: &S, env: &Env, idx: u64) -> S::Plan {
    let mut rng = Rng::new(run_seed(env.seed, &sc.seed_tag(), idx));
    sc.generate(&mut rng, env.tier, idx)
}

/// Execute a plan guarding against panics of the harness itself.
pub fn exec_guarded<S: Scenario>(sc: &S, plan: &S::Plan) -> Outcome<S::Plan> {
    match exec::catch("harness", || sc.execute(plan)) {
        Ok(o) => o,
        Err(p) => {
            let mut o = Outcome::new();
            o.harness_error = Some(format!(
                "panic outside any simulated task at {}:{}: {}",
                p.file, p.line, p.msg
            ));
            o
        }
    }
}

fn shrink_plan<S: Scenario>(
    sc: &S,
    start: S::Plan,
    key: &str,
    budget_execs: u64,
    budget_s: f64,
) -> (S::Plan, Violation, u64) {
    let t0 = Instant::now();
    let mut cur = start;
    let mut cur_v = exec_guarded(sc, &cur).violation.expect("start plan must violate");
    let mut execs = 0u64;
    let mut steps = 0u64;
    'outer: loop {
        let cands = sc.shrink(&cur);
        for cand in cands {
            if execs >= budget_execs || t0.elapsed().as_secs_f64() > budget_s {
                break 'outer;
            }
            execs += 1;
            let o = exec_guarded(sc, &cand);
            if o.harness_error.is_some() {
                continue;
            }
            if let Some(v) = o.violation {
                if v.key() == key {
                    cur = match o.narrowed {
                        Some(n) => n,
                        None => cand,
                    };
                    cur_v = v;
                    steps += 1;
                    continue 'outer;
                }
            }
        }
        break;
    }
    (cur, cur_v, steps)
}

pub struct BatchResult {
    pub exit_code: i32,
}

pub struct BatchReport {
    pub exit_code: i32,
    pub coverage: serde_json::Map<String, Value>,
    pub level: &'static str,
    pub assumptions: Vec<&'static str>,
    pub new_violations: u64,
    pub wall_s: f64,
}

pub fn run_check<S: Scenario>(sc: &S, env: &Env) -> BatchResult {
    let r = run_batch(sc, env, env.runs_override.unwrap_or_else(|| sc.runs(env.tier)));
    write_evidence(env, sc.id(), &r, &[]);
    BatchResult { exit_code: r.exit_code }
}

/// focused scenario of the property, then the pipeline scenario judged with the
/// same property's oracle; one evidence file
pub fn exit_of(reports: &[&BatchReport]) -> i32 {
    if reports.iter().any(|r| r.exit_code == 2) {
        2
    } else {
        reports.iter().map(|r| r.exit_code).max().unwrap_or(0)
    }
}

pub fn extra_runs(sc_runs: u64, var: &str) -> u64 {
    std::env::var(var).ok().and_then(|s| s.parse().ok()).unwrap_or(sc_runs)
}

pub fn write_evidence(env: &Env, id: &str, r: &BatchReport, extras: &[(&str, &BatchReport)]) {
    let mut cov = r.coverage.clone();
    let mut violations = r.new_violations;
    let mut wall = r.wall_s;
    let mut assumptions: Vec<String> = r.assumptions.iter().map(|s| s.to_string()).collect();
    for (name, p) in extras {
        let mut pc = p.coverage.clone();
        // one sample of a secondary scenario is enough in the property's file
        if let Some(Value::Array(a)) = pc.get_mut("samples") {
            a.truncate(1);
        }
        cov.insert(name.to_string(), Value::Object(pc));
        violations += p.new_violations;
        wall += p.wall_s;
        for a in &p.assumptions {
            assumptions.push(format!("{}: {}", name, a));
        }
    }
    let ev = json!({
        "property_id": id,
        "tier": env.tier.name(),
        "seed": env.seed,
        "level": r.level,
        "coverage": Value::Object(cov),
        "assumptions": assumptions,
        "wall_s": wall,
        "violations": violations,
    });
    let evdir = std::env::var("VERIF_EVIDENCE_DIR").unwrap_or_else(|_| format!("{}/evidence", env.verif_dir));
    let _ = std::fs::create_dir_all(&evdir);
    let evpath = format!("{}/{}.json", evdir, id);
    std::fs::write(&evpath, serde_json::to_string_pretty(&ev).unwrap()).unwrap();
    println!("[{}] evidence -> {}", id, evpath);
}

pub fn run_batch<S: Scenario>(sc: &S, env: &Env, n_runs: u64) -> BatchReport {
    exec::install_panic_hook();
    let t0 = Instant::now();
    println!(
        "[{}/{}] tier={} seed={} runs={} workers={}",
        sc.id(),
        sc.kind(),
        env.tier.name(),
        env.seed,
        n_runs,
        env.workers
    );
    let next = AtomicU64::new(0);
    let total = Mutex::new(Acc::new());
    let budget = env.budget_s;
    let timed_out = AtomicU64::new(0);
    std::thread::scope(|s| {
        for _ in 0..env.workers {
            s.spawn(|| {
                let mut acc = Acc::new();
                loop {
                    let idx = next.fetch_add(1, Ordering::SeqCst);
                    if idx >= n_runs {
                        break;
                    }
                    if t0.elapsed().as_secs_f64() > budget {
                        timed_out.store(1, Ordering::SeqCst);
                        break;
                    }
                    let plan = plan_of(sc, env, idx);
                    let o = exec_guarded(sc, &plan);
                    acc.add(idx, o);
                }
                total.lock().unwrap().merge(acc);
            });
        }
    });
    let acc = total.into_inner().unwrap();
    let wall_batch = t0.elapsed().as_secs_f64();
    if timed_out.load(Ordering::SeqCst) != 0 {
        println!(
            "[{}] note: wall-clock budget of {:.0} s reached after {} of {} runs",
            sc.id(),
            budget,
            acc.runs,
            n_runs
        );
    }

    let mut exit_code = 0;
    for (k, (idx, e)) in acc.harness_errors.iter().enumerate() {
        if k < 5 {
            println!("HARNESS-ERROR: property={} run={} {}", sc.id(), idx, e);
        }
        exit_code = 2;
    }
    if acc.harness_errors.len() > 5 {
        println!("HARNESS-ERROR: property={} ... and {} more runs with harness errors", sc.id(), acc.harness_errors.len() - 5);
    }

    // triage violations: lowest run index first, at most 8 distinct keys
    let mut vs: Vec<(u64, String, Violation)> = acc
        .violations
        .iter()
        .map(|(k, (i, v))| (*i, k.clone(), v.clone()))
        .collect();
    vs.sort_by(|a, b| (a.0, &a.1).cmp(&(b.0, &b.1)));
    vs.truncate(8);
    let known = env.known_findings();
    let mut new_violations = 0u64;
    let mut known_hits = 0u64;
    let replay_dir = format!("{}/replays", env.verif_dir);
    let _ = std::fs::create_dir_all(&replay_dir);
    for (idx, key, v0) in vs {
        let plan = plan_of(sc, env, idx);
        let o = exec_guarded(sc, &plan);
        let Some(v) = o.violation else {
            println!(
                "HARNESS-ERROR: property={} run={} violation '{}' did not reproduce in-process (nondeterminism)",
                sc.id(), idx, key
            );
            exit_code = 2;
            continue;
        };
        if v.key() != key {
            // another violation of the same run comes first; it has its own entry
            continue;
        }
        // (a narrowed plan that does not fail on its own is not used)
        let start = match o.narrowed {
            Some(n) if exec_guarded(sc, &n).violation.map_or(false, |x| x.key() == key) => n,
            _ => plan,
        };
        let (min_plan, min_v, steps) = shrink_plan(
            sc,
            start,
            &key,
            match env.tier {
                Tier::Quick => 4000,
                Tier::Thorough => 20000,
            },
            match env.tier {
                Tier::Quick => 45.0,
                Tier::Thorough => 180.0,
            },
        );
        let kf = known.iter().find(|k| {
            k.property == sc.id()
                && k.status == "known"
                && k.class == min_v.class
                && (k.locator == min_v.locator
                    || (k.locator.ends_with('*')
                        && min_v.locator.starts_with(&k.locator[..k.locator.len() - 1])))
        });
        let fname = format!(
            "{}/{}{}-{}-{}-{}.json",
            replay_dir,
            sc.id(),
            if sc.kind() == "focused" { String::new() } else { format!("-{}", sc.kind()) },
            env.seed,
            idx,
            sanitize(&min_v.class)
        );
        let rf = ReplayFile {
            property: sc.id().to_string(),
            scenario: sc.kind().to_string(),
            batch_seed: env.seed,
            run_index: idx,
            tier: env.tier.name().to_string(),
            violation: min_v.clone(),
            shrink_steps: steps,
            plan: serde_json::to_value(&min_plan).unwrap(),
        };
        std::fs::write(&fname, serde_json::to_string_pretty(&rf).unwrap()).unwrap();
        // the replay must reproduce in a fresh process
        let mut reproduced = replay_in_fresh_process(sc.id(), &fname, &min_v.key());
        if !reproduced {
            // The minimised plan fails in this process but not in a fresh one: the
            // code under test keeps state in the process between runs (a static
            // cache, say) and the in-process shrinker was fed by it. Look for a
            // run whose own plan fails in a fresh process and minimise that one
            // with every candidate executed in a fresh process.
            let cands: Vec<u64> = acc.more_runs.get(&key).cloned().unwrap_or_default();
            for ci in cands {
                let p = plan_of(sc, env, ci);
                if fresh_violation_key(sc, env, &p, &key).as_deref() == Some(key.as_str()) {
                    let (minp, st) = shrink_plan_fresh(sc, env, p, &key, 400, 40.0);
                    let rf2 = ReplayFile {
                        property: sc.id().to_string(),
                        scenario: sc.kind().to_string(),
                        batch_seed: env.seed,
                        run_index: ci,
                        tier: env.tier.name().to_string(),
                        violation: min_v.clone(),
                        shrink_steps: st,
                        plan: serde_json::to_value(&minp).unwrap(),
                    };
                    std::fs::write(&fname, serde_json::to_string_pretty(&rf2).unwrap()).unwrap();
                    reproduced = replay_in_fresh_process(sc.id(), &fname, &min_v.key());
                    if reproduced {
                        println!("[{}] note: '{}' depends on state kept in the process between runs; minimised with fresh processes (run {})", sc.id(), key, ci);
                        break;
                    }
                }
            }
        }
        if !reproduced {
            println!(
                "HARNESS-ERROR: property={} replay {} did not reproduce '{}' in a fresh process",
                sc.id(),
                fname,
                min_v.key()
            );
            exit_code = 2;
            continue;
        }
        let _ = v0;
        match kf {
            Some(k) => {
                known_hits += 1;
                println!(
                    "KNOWN-FINDING: property={} {} [class={} locator={} replay={}]",
                    sc.id(),
                    k.text,
                    min_v.class,
                    min_v.locator,
                    fname
                );
                // a replay of a listed finding is not kept around
            }
            None => {
                new_violations += 1;
                println!(
                    "violation: property={} run={} class={} locator={} detail={}",
                    sc.id(),
                    idx,
                    min_v.class,
                    min_v.locator,
                    min_v.detail
                );
                println!("VIOLATION property={} replay={}", sc.id(), fname);
                if exit_code == 0 {
                    exit_code = 1;
                }
            }
        }
    }

    // evidence
    let wall = t0.elapsed().as_secs_f64();
    let meta = sc.meta();
    let mut samples = Vec::new();
    for i in 0..3.min(n_runs) {
        let p = plan_of(sc, env, i);
        samples.push(json!({"run_index": i, "run_seed": run_seed(env.seed, &sc.seed_tag(), i), "plan": sc.sample(&p)}));
    }
    let mut faults = serde_json::Map::new();
    for k in &meta.fault_kinds {
        faults.insert(k.to_string(), json!(acc.counters.get(k).copied().unwrap_or(0)));
    }
    let mut probes = serde_json::Map::new();
    for k in &meta.probes {
        probes.insert(k.to_string(), json!(acc.counters.get(k).copied().unwrap_or(0)));
    }
    let mut other = serde_json::Map::new();
    for (k, v) in &acc.counters {
        if !meta.fault_kinds.contains(k) && !meta.probes.contains(k) {
            other.insert(k.to_string(), json!(v));
        }
    }
    let zero_probes: Vec<&str> = meta
        .probes
        .iter()
        .chain(meta.fault_kinds.iter())
        .filter(|k| acc.counters.get(*k).copied().unwrap_or(0) == 0)
        .copied()
        .collect();
    if !zero_probes.is_empty() {
        println!("[{}] note: probes/faults that never fired in this batch: {:?}", sc.id(), zero_probes);
    }
    let comps: Vec<Value> = meta
        .components
        .iter()
        .map(|(n, k)| json!({"component": n, "kind": k}))
        .collect();
    let coverage = json!({
            "evaluations": acc.evaluations,
            "distinct_nontrivial": acc.nontrivial.len(),
            "rule": meta.rule,
            "samples": samples,
            "exhaustive": sc.exhaustive(env.tier),
            "simulated_runs": acc.runs,
            "runs_requested": n_runs,
            "runs_per_hour": if wall_batch > 0.0 { (acc.runs as f64 / wall_batch * 3600.0) as u64 } else { 0 },
            "executions_per_hour": if wall_batch > 0.0 { (acc.evaluations as f64 / wall_batch * 3600.0) as u64 } else { 0 },
            "simulated_seconds_covered": (acc.sim_ns as f64) * 1e-9,
            "scheduler_steps": acc.steps,
            "distinct_schedule_fault_signatures": acc.sigs.len(),
            "distinct_oracle_states": acc.oracle_states.len(),
            "faults_fired": Value::Object(faults),
            "reach_probes": Value::Object(probes),
            "other_counters": Value::Object(other),
            "scheduler_policies": acc.policies,
            "components": comps,
            "workers": env.workers,
            "violating_runs": acc.violating_runs,
            "known_findings_hit": known_hits,
            "batch_wall_s": wall_batch,
    });
    println!(
        "[{}/{}] runs={} executions={} distinct_nontrivial={} sim_s={:.0} wall={:.1}s violations={} known={}",
        sc.id(),
        sc.kind(),
        acc.runs,
        acc.evaluations,
        acc.nontrivial.len(),
        (acc.sim_ns as f64) * 1e-9,
        wall,
        new_violations,
        known_hits,
    );
    let Value::Object(coverage) = coverage else { unreachable!() };
    BatchReport {
        exit_code,
        coverage,
        level: meta.level,
        assumptions: meta.assumptions.clone(),
        new_violations,
        wall_s: wall,
    }
}


fn sanitize(s: &str) -> String {
    s.chars()
        .map(|c| if c.is_ascii_alphanumeric() { c } else { '_' })
        .collect()
}

/// Execute a plan in a fresh process and return the key of the violation it
/// shows there, if any (used when a violation depends on state that the code
/// under test keeps in the process between runs).
fn fresh_violation_key<S: Scenario>(sc: &S, env: &Env, plan: &S::Plan, tag: &str) -> Option<String> {
    let dir = format!("{}/replays", env.verif_dir);
    let _ = std::fs::create_dir_all(&dir);
    let path = format!("{}/.tmp-{}-{}-{}.json", dir, sc.id(), sanitize(tag), std::process::id());
    let rf = ReplayFile {
        property: sc.id().to_string(),
        scenario: sc.kind().to_string(),
        batch_seed: env.seed,
        run_index: 0,
        tier: env.tier.name().to_string(),
        violation: Violation::new("?", "?", "?"),
        shrink_steps: 0,
        plan: serde_json::to_value(plan).ok()?,
    };
    std::fs::write(&path, serde_json::to_string(&rf).ok()?).ok()?;
    let exe = std::env::current_exe().ok()?;
    let out = std::process::Command::new(exe)
        .args(["verif::verif_entry", "--exact", "--nocapture", "--test-threads=1"])
        .env("VERIF_CMD", "replay")
        .env("VERIF_PROP", sc.id())
        .env("VERIF_REPLAY", &path)
        .output()
        .ok();
    let _ = std::fs::remove_file(&path);
    let out = out?;
    let s = String::from_utf8_lossy(&out.stdout).to_string();
    s.lines().find_map(|l| l.find("REPRODUCED key=").map(|i| l[i + 15..].trim().to_string()))
}

/// shrink with every candidate executed in a fresh process
fn shrink_plan_fresh<S: Scenario>(sc: &S, env: &Env, start: S::Plan, key: &str, budget_execs: u64, budget_s: f64) -> (S::Plan, u64) {
    let t0 = Instant::now();
    let mut cur = start;
    let mut execs = 0u64;
    let mut steps = 0u64;
    'outer: loop {
        for cand in sc.shrink(&cur) {
            if execs >= budget_execs || t0.elapsed().as_secs_f64() > budget_s {
                break 'outer;
            }
            execs += 1;
            if fresh_violation_key(sc, env, &cand, key).as_deref() == Some(key) {
                cur = cand;
                steps += 1;
                continue 'outer;
            }
        }
        break;
    }
    (cur, steps)
}

fn replay_in_fresh_process(prop: &str, path: &str, key: &str) -> bool {
    let exe = match std::env::current_exe() {
        Ok(e) => e,
        Err(_) => return false,
    };
    let out = std::process::Command::new(exe)
        .args(["verif::verif_entry", "--exact", "--nocapture", "--test-threads=1"])
        .env("VERIF_CMD", "replay")
        .env("VERIF_PROP", prop)
        .env("VERIF_REPLAY", path)
        .output();
    match out {
        Ok(o) => {
            let s = String::from_utf8_lossy(&o.stdout);
            s.lines().any(|l| l == format!("REPRODUCED key={}", key))
        }
        Err(_) => false,
    }
}

/// `./check <id> --replay <file>`: exit 1 iff the recorded violation reproduces.
pub fn run_replay<S: Scenario>(sc: &S, path: &str) -> i32 {
    exec::install_panic_hook();
    let s = match std::fs::read_to_string(path) {
        Ok(s) => s,
        Err(e) => {
            println!("HARNESS-ERROR: cannot read replay file {}: {}", path, e);
            return 2;
        }
    };
    let rf: ReplayFile = match serde_json::from_str(&s) {
        Ok(r) => r,
        Err(e) => {
            println!("HARNESS-ERROR: cannot parse replay file {}: {}", path, e);
            return 2;
        }
    };
    let plan: S::Plan = match serde_json::from_value(rf.plan.clone()) {
        Ok(p) => p,
        Err(e) => {
            println!("HARNESS-ERROR: replay file {} does not hold a {} plan: {}", path, sc.id(), e);
            return 2;
        }
    };
    exec::trace_enable(true);
    let o = exec_guarded(sc, &plan);
    let tr = exec::trace_take();
    if std::env::var("VERIF_TRACE").is_ok() {
        for l in &tr {
            println!("  {}", l);
        }
    }
    if let Some(e) = o.harness_error {
        println!("HARNESS-ERROR: {}", e);
        return 2;
    }
    match o.violation {
        Some(v) => {
            println!("replayed: class={} locator={} detail={}", v.class, v.locator, v.detail);
            println!("REPRODUCED key={}", v.key());
            if v.key() == rf.violation.key() {
                println!("VIOLATION property={} replay={}", sc.id(), path);
            } else {
                println!(
                    "note: recorded violation was '{}', this tree fails differently",
                    rf.violation.key()
                );
                println!("VIOLATION property={} replay={}", sc.id(), path);
            }
            1
        }
        None => {
            println!("replay {}: no violation on this tree", path);
            0
        }
    }
}

/// determinism probe: prints one line per run with everything observable
pub fn run_dethash<S: Scenario>(sc: &S, env: &Env, n: u64) {
    exec::install_panic_hook();
    let next = AtomicU64::new(0);
    let lines = Mutex::new(BTreeMap::<u64, String>::new());
    std::thread::scope(|s| {
        for _ in 0..env.workers {
            s.spawn(|| loop {
                let idx = next.fetch_add(1, Ordering::SeqCst);
                if idx >= n {
                    break;
                }
                let plan = plan_of(sc, env, idx);
                let ph = {
                    let mut f = super::rng::Fnv::new();
                    f.bytes(serde_json::to_string(&plan).unwrap().as_bytes());
                    f.0
                };
                let o = exec_guarded(sc, &plan);
                let mut sh = super::rng::Fnv::new();
                for s in &o.sigs {
                    sh.u64(*s);
                }
                let mut cs: Vec<_> = o.counters.clone();
                cs.sort();
                let line = format!(
                    "DET {} {} plan={:016x} log={:016x} sigs={:016x} evals={} steps={} sim_ns={} v={} he={} counters={:?}",
                    sc.id(),
                    idx,
                    ph,
                    o.log_hash,
                    sh.0,
                    o.evaluations,
                    o.steps,
                    o.sim_ns,
                    o.violation.as_ref().map(|v| v.key()).unwrap_or_default(),
                    o.harness_error.is_some(),
                    cs
                );
                lines.lock().unwrap().insert(idx, line);
            });
        }
    });
    for (_, l) in lines.into_inner().unwrap() {
        println!("{}", l);
    }
}
