// The terminal side of main(), compiled from the repository's own text.
//
// `./check build` copies three closures verbatim into generated files:
//   - the terminal task of main()            (main.rs: `if let Some(mut terminal) = terminal { tokio::spawn(async move { ... }) }`)
//   - the expiry task of main()              (main.rs: `if minutes > 0 { tokio::spawn(async move { ... }) }`)
//   - the reader task of tui::EventHandler   (tui.rs:  `let _task = tokio::spawn(async move { ... })`)
// Each is included below inside a function that provides only the bindings the
// lines refer to. What the lines CALL is real; the harness observes through
// names it shadows: `update`, `table::build_table` and `tui::restore` for the
// terminal task (the oracle of C17 sits in c17::hooked_update / hooked_draw),
// `crossterm::event::EventStream` for the reader (the terminal is simulated: a
// timed script of keys, mouse wheel, resizes and read errors), `SystemTime` for
// the expiry task (the simulated wall clock). `tokio::time::interval`, `sleep`
// and `tokio::select!` inside those lines run on the simulator's time driver
// and seeded RNG (DESIGN.md 10.6).

use super::c17::{self, Ev, Shared, TimedEv};
use super::exec::{self, Sim};
use crate::tui::Event;
use crate::Jet1090;
use ratatui::backend::{Backend, TestBackend, WindowSize};
use ratatui::buffer::Cell;
use ratatui::layout::{Position, Size};
use ratatui::Terminal;
use std::cell::RefCell;
use std::rc::Rc;
use std::sync::Arc;
use tokio::sync::Mutex;

pub const TUI_SOURCE: &str = include_str!(concat!(env!("XOOLIVE_RS1090_VERIF_GEN"), "/extraction_tui.txt"));
pub const EXPIRY_SOURCE: &str = include_str!(concat!(env!("XOOLIVE_RS1090_VERIF_GEN"), "/extraction_expiry.txt"));
pub const READER_SOURCE: &str = include_str!(concat!(env!("XOOLIVE_RS1090_VERIF_GEN"), "/extraction_reader.txt"));

/// the three closures are the repository's own text (not the driver's copies)
pub fn available() -> bool {
    TUI_SOURCE.trim() == "extracted" && READER_SOURCE.trim() == "extracted"
}
pub fn expiry_available() -> bool {
    EXPIRY_SOURCE.trim() == "extracted"
}

pub fn components() -> Vec<(&'static str, &'static str)> {
    let real = "real (the repository's own lines, copied verbatim at build time; observation points by shadowing names)";
    let stub = "stub (re-stated in the driver: the text could not be located or did not compile in the wrapper)";
    vec![
        ("terminal task of main() (event -> update -> should_quit / should_clear -> draw)", if TUI_SOURCE.trim() == "extracted" { real } else { stub }),
        ("reader task of tui::EventHandler (crossterm events, mouse wheel, resize, 250 ms interval, select!)", if READER_SOURCE.trim() == "extracted" { real } else { stub }),
        ("expiry task of main() (every 60 s: drop aircraft and history older than N minutes)", if EXPIRY_SOURCE.trim() == "extracted" { real } else { stub }),
    ]
}

// ------------------------------------------------------------------ terminal

/// A ratatui backend whose TestBackend is shared with the simulated terminal
/// (which resizes it when the script says so).
pub struct SharedBackend(pub Rc<RefCell<TestBackend>>);

impl Backend for SharedBackend {
    fn draw<'a, I>(&mut self, content: I) -> std::io::Result<()>
    where
        I: Iterator<Item = (u16, u16, &'a Cell)>,
    {
        self.0.borrow_mut().draw(content)
    }
    fn hide_cursor(&mut self) -> std::io::Result<()> {
        self.0.borrow_mut().hide_cursor()
    }
    fn show_cursor(&mut self) -> std::io::Result<()> {
        self.0.borrow_mut().show_cursor()
    }
    fn get_cursor_position(&mut self) -> std::io::Result<Position> {
        self.0.borrow_mut().get_cursor_position()
    }
    fn set_cursor_position<P: Into<Position>>(&mut self, position: P) -> std::io::Result<()> {
        self.0.borrow_mut().set_cursor_position(position)
    }
    fn clear(&mut self) -> std::io::Result<()> {
        self.0.borrow_mut().clear()
    }
    fn size(&self) -> std::io::Result<Size> {
        self.0.borrow().size()
    }
    fn window_size(&mut self) -> std::io::Result<WindowSize> {
        self.0.borrow_mut().window_size()
    }
    fn flush(&mut self) -> std::io::Result<()> {
        self.0.borrow_mut().flush()
    }
}

// ------------------------------------------------------------------ the simulated terminal device

pub struct Script {
    events: Vec<TimedEv>,
    next: usize,
    backend: Rc<RefCell<TestBackend>>,
    app: Arc<Mutex<Jet1090>>,
    shared: Rc<RefCell<Shared>>,
    /// end of session: instant of the next quit attempt
    quit_at: Option<u64>,
}

thread_local! {
    static SCRIPT: RefCell<Option<Script>> = const { RefCell::new(None) };
}

/// what stands for `crossterm::event::EventStream` inside the reader's lines
pub struct SimEventStream;

impl SimEventStream {
    #[allow(clippy::new_without_default)]
    pub fn new() -> SimEventStream {
        SimEventStream
    }
}

impl futures::Stream for SimEventStream {
    type Item = std::io::Result<crossterm::event::Event>;
    fn poll_next(self: std::pin::Pin<&mut Self>, cx: &mut std::task::Context<'_>) -> std::task::Poll<Option<Self::Item>> {
        use crossterm::event::{Event as CE, KeyCode, KeyEvent, KeyModifiers, MouseEvent, MouseEventKind};
        use std::task::Poll;
        SCRIPT.with(|s| {
            let mut g = s.borrow_mut();
            let Some(sc) = g.as_mut() else { return Poll::Pending };
            loop {
                if sc.next < sc.events.len() {
                    let te = sc.events[sc.next].clone();
                    if te.at_ns > exec::now_ns() {
                        exec::wake_at(te.at_ns, cx.waker().clone());
                        return Poll::Pending;
                    }
                    sc.next += 1;
                    match &te.ev {
                        // ticks come from the reader's own interval
                        Ev::Tick => continue,
                        Ev::Error => {
                            sc.shared.borrow_mut().count("read_error");
                            return Poll::Ready(Some(Err(std::io::Error::new(std::io::ErrorKind::Other, "simulated read error"))));
                        }
                        Ev::Resize(w, h) => {
                            sc.backend.borrow_mut().resize(*w, *h);
                            sc.shared.borrow_mut().count("resize");
                            return Poll::Ready(Some(Ok(CE::Resize(*w, *h))));
                        }
                        Ev::ClockStep(by) => {
                            exec::set_wall_offset_ns(*by as i64 * 1_000_000_000);
                            exec::log_u64(0xC10C ^ ((*by as i64 as u64) << 16));
                            let mut sh = sc.shared.borrow_mut();
                            sh.count(if *by < 0 { "clock_step_back" } else { "clock_step_forward" });
                            sh.perturbed = true;
                            continue;
                        }
                        Ev::ScrollUp | Ev::ScrollDown => {
                            sc.shared.borrow_mut().count("mouse_wheel");
                            let kind = if te.ev == Ev::ScrollUp { MouseEventKind::ScrollUp } else { MouseEventKind::ScrollDown };
                            return Poll::Ready(Some(Ok(CE::Mouse(MouseEvent { kind, column: 0, row: 0, modifiers: KeyModifiers::NONE }))));
                        }
                        Ev::Term(n) => {
                            use crossterm::event::{KeyEventKind, MouseButton};
                            sc.shared.borrow_mut().count("other_terminal_event");
                            let mouse = |kind| CE::Mouse(MouseEvent { kind, column: 3, row: 1, modifiers: KeyModifiers::NONE });
                            return Poll::Ready(Some(Ok(match c17::term_event(*n) {
                                c17::TermEv::Press(code) => CE::Key(KeyEvent::new(code, KeyModifiers::NONE)),
                                c17::TermEv::NotPress(c, repeat) => CE::Key(KeyEvent::new_with_kind(KeyCode::Char(c), KeyModifiers::NONE, if repeat { KeyEventKind::Repeat } else { KeyEventKind::Release })),
                                c17::TermEv::FocusGained => CE::FocusGained,
                                c17::TermEv::FocusLost => CE::FocusLost,
                                c17::TermEv::Paste(text) => CE::Paste(text.to_string()),
                                c17::TermEv::Mouse(0) => mouse(MouseEventKind::Down(MouseButton::Left)),
                                c17::TermEv::Mouse(1) => mouse(MouseEventKind::Up(MouseButton::Left)),
                                c17::TermEv::Mouse(2) => mouse(MouseEventKind::Moved),
                                c17::TermEv::Mouse(3) => mouse(MouseEventKind::Drag(MouseButton::Right)),
                                c17::TermEv::Mouse(4) => mouse(MouseEventKind::ScrollLeft),
                                c17::TermEv::Mouse(_) => mouse(MouseEventKind::ScrollRight),
                            })));
                        }
                        other => match c17::keycode_of(other) {
                            Some(code) => return Poll::Ready(Some(Ok(CE::Key(KeyEvent::new(code, c17::modifiers_of(other)))))),
                            None => continue,
                        },
                    }
                }
                // end of session: leave search mode if needed, then quit
                let at = *sc.quit_at.get_or_insert(exec::now_ns() + 1_000_000);
                if at > exec::now_ns() {
                    exec::wake_at(at, cx.waker().clone());
                    return Poll::Pending;
                }
                match sc.app.try_lock() {
                    Ok(a) => {
                        if a.should_quit {
                            return Poll::Pending; // nothing more to type
                        }
                        let code = if a.is_search_mode { KeyCode::Esc } else { KeyCode::Char('q') };
                        sc.quit_at = Some(exec::now_ns() + 300_000_000);
                        return Poll::Ready(Some(Ok(CE::Key(KeyEvent::new(code, KeyModifiers::NONE)))));
                    }
                    Err(_) => {
                        // somebody holds the table: look again a little later
                        sc.quit_at = Some(exec::now_ns() + 100_000_000);
                        continue;
                    }
                }
            }
        })
    }
}

// ------------------------------------------------------------------ the closures

/// what main() calls `events` (tui::EventHandler: its fields are private to its
/// module; `next()` is its two lines)
pub struct EventsRx {
    rx: tokio::sync::mpsc::UnboundedReceiver<Event>,
}
impl EventsRx {
    pub async fn next(&mut self) -> Result<Event, std::io::Error> {
        self.rx.recv().await.ok_or_else(|| std::io::Error::new(std::io::ErrorKind::Other, "Unable to get event"))
    }
}

/// the reader task of tui::EventHandler::new
#[allow(unused_mut, unused_variables, clippy::all)]
async fn reader_task(tx: tokio::sync::mpsc::UnboundedSender<Event>, width: u16, tick_rate: std::time::Duration) {
    use futures::{FutureExt, StreamExt};
    /// the simulated terminal instead of the real one
    mod crossterm {
        pub mod event {
            pub use super::super::SimEventStream as EventStream;
            pub use ::crossterm::event::{Event, KeyCode, KeyEvent, KeyEventKind, KeyModifiers, MouseEvent, MouseEventKind};
        }
    }
    // (tui.rs imports this name at the top of the file)
    use crossterm::event::KeyEvent;
    let mut width = width;
    include!(concat!(env!("XOOLIVE_RS1090_VERIF_GEN"), "/reader_body.rs"));
}

/// the terminal task of main()
#[allow(unused_mut, unused_variables, clippy::all)]
async fn terminal_task(mut events: EventsRx, app_tui: Arc<Mutex<Jet1090>>, mut terminal: Terminal<SharedBackend>) -> std::io::Result<()> {
    fn update(g: &mut tokio::sync::MutexGuard<Jet1090>, event: Event) -> std::io::Result<()> {
        super::c17::hooked_update(g, event)
    }
    mod table {
        pub fn build_table(frame: &mut ratatui::Frame, app: &mut crate::Jet1090) {
            super::super::c17::hooked_draw(frame, app)
        }
    }
    mod tui {
        pub fn restore() -> std::io::Result<()> {
            Ok(())
        }
    }
    include!(concat!(env!("XOOLIVE_RS1090_VERIF_GEN"), "/tui_loop_body.rs"))
}

/// the expiry task of main()
#[allow(unused_mut, unused_variables, unreachable_code, clippy::all)]
async fn expiry_task(app_exp: Arc<Mutex<Jet1090>>, minutes: u64) {
    use tokio::time::{sleep, Duration};
    /// the simulated wall clock
    #[allow(non_snake_case)]
    mod SystemTime {
        pub fn now() -> std::time::SystemTime {
            std::time::UNIX_EPOCH + std::time::Duration::from_nanos(rs1090::decode::time::now_in_ns() as u64)
        }
    }
    include!(concat!(env!("XOOLIVE_RS1090_VERIF_GEN"), "/expiry_body.rs"));
}

thread_local! {
    /// tasks that never end by themselves (reader, expiry): cancelled when the
    /// terminal task has ended / the session is over, as the process would exit
    static ENDLESS: RefCell<Vec<exec::TaskId>> = const { RefCell::new(Vec::new()) };
}

pub fn reset() {
    ENDLESS.with(|e| e.borrow_mut().clear());
    SCRIPT.with(|s| *s.borrow_mut() = None);
}

/// cancel the endless tasks (called by the scenarios from their run hooks)
pub fn cancel_endless(sim: &mut Sim) {
    let ids: Vec<exec::TaskId> = ENDLESS.with(|e| e.borrow_mut().drain(..).collect());
    for id in ids {
        if !sim.is_done(id) {
            sim.cancel(id);
        }
    }
}

/// Spawn the reader task and the terminal task; returns the terminal task.
pub fn spawn(sim: &mut Sim, app: &Arc<Mutex<Jet1090>>, events: &[TimedEv], term_w: u16, term_h: u16, shared: &Rc<RefCell<Shared>>) -> exec::TaskId {
    let backend = Rc::new(RefCell::new(TestBackend::new(term_w, term_h)));
    // ticks: the reader's own interval; its period is main()'s 250 ms unless the
    // script asks for sparser ticks (long sessions)
    let mut tick_ns = 250_000_000u64;
    let ticks: Vec<u64> = events.iter().filter(|e| e.ev == Ev::Tick).map(|e| e.at_ns).collect();
    if ticks.len() >= 2 {
        let d = ticks[1] - ticks[0];
        if d > tick_ns {
            tick_ns = d;
        }
    }
    SCRIPT.with(|s| {
        *s.borrow_mut() = Some(Script { events: events.to_vec(), next: 0, backend: backend.clone(), app: app.clone(), shared: shared.clone(), quit_at: None })
    });
    let (tx, rx) = tokio::sync::mpsc::unbounded_channel::<Event>();
    let reader = sim.spawn("tui::EventHandler reader task(real)+terminal(stub)", reader_task(tx, term_w, std::time::Duration::from_nanos(tick_ns)));
    ENDLESS.with(|e| e.borrow_mut().push(reader));
    let terminal = Terminal::new(SharedBackend(backend)).expect("terminal on a test backend");
    let app_tui = app.clone();
    let sh = shared.clone();
    sim.spawn("tui-loop(real)+update/build_table(real)", async move {
        let _ = terminal_task(EventsRx { rx }, app_tui, terminal).await;
        sh.borrow_mut().tui_ended = true;
    })
}

/// Spawn the expiry task (the real one runs every 60 s, for ever).
pub fn spawn_expiry(sim: &mut Sim, app: &Arc<Mutex<Jet1090>>, minutes: u64) {
    let t = sim.spawn("expiry-task(real)", expiry_task(app.clone(), minutes));
    ENDLESS.with(|e| e.borrow_mut().push(t));
}
