#!/usr/bin/env python3
"""tools/seed_mutant.py <property> <source mutant dir> <slug> [confirm-log-line]
Copies a confirmed mutant into /verif/seeded/<property>-<slug>/, runs the
property's quick check against it (patch applied to /repo, reverted afterwards,
evidence written to a scratch directory) and records what happened in meta.json."""
import json, os, re, shutil, subprocess, sys
prop, src, slug = sys.argv[1:4]
confirm = sys.argv[4] if len(sys.argv) > 4 else ""
dst = "/verif/seeded/%s-%s" % (prop, slug)
os.makedirs(dst, exist_ok=True)
wt = os.path.dirname(os.path.dirname(src.rstrip("/")))
for f in ("patch.diff", "demo.diff", "run.sh"):
    if os.path.exists(os.path.join(src, f)):
        txt = open(os.path.join(src, f)).read()
        if f == "run.sh":
            txt = "# run inside a scratch worktree of /repo: WT=<worktree> bash run.sh\n" + txt.replace(wt, "${WT}")
        open(os.path.join(dst, f), "w").write(txt)
meta = json.load(open(os.path.join(src, "meta.json"))) if os.path.exists(os.path.join(src, "meta.json")) else {}
r = subprocess.run(["/verif/tools/try_mutant.sh", prop, os.path.join(dst, "patch.diff")], stdout=subprocess.PIPE, stderr=subprocess.STDOUT, text=True)
out = r.stdout
viol = [l for l in out.splitlines() if l.startswith("violation:")]
classes = sorted(set(re.findall(r"class=(\S+) locator=(\S+)", "\n".join(viol))))
meta["property"] = prop
meta["origin"] = "independent sub-agent given only the property text and a scratch worktree"
meta["confirmed_by_me"] = confirm or "see DESIGN.md"
meta["check_run"] = "tools/try_mutant.sh %s seeded/%s-%s/patch.diff  (git apply in /repo, ./check %s --tier quick, git checkout)" % (prop, prop, slug, prop)
meta["detected"] = ("exit=1" in out) and bool(viol)
meta["detected_as"] = ["%s|%s" % c for c in classes]
meta["first_violation"] = viol[0][:500] if viol else None
json.dump(meta, open(os.path.join(dst, "meta.json"), "w"), indent=1)
print(prop, slug, "detected" if meta["detected"] else "MISSED", meta["detected_as"])
