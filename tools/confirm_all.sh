#!/bin/bash
# usage: tools/confirm_all.sh <worktree> <m dirs...>  -> <worktree>/OUT/confirm.txt
WT=$1; shift
: > "$WT/OUT/confirm.txt"
for M in "$@"; do
  /verif/tools/confirm_mutant.sh "$WT" "$WT/OUT/$M" 2>&1 | tail -1 >> "$WT/OUT/confirm.txt"
done
