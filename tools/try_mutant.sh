#!/bin/bash
# usage: tools/try_mutant.sh <property> <patch.diff> [runs]
# Applies the patch to /repo, runs the quick check of <property> (evidence
# written to a scratch directory, never to /verif/evidence), and reverts /repo.
set -u
P=$1; D=$2; RUNS=${3:-}
cd /repo || exit 2
if [ -n "$(git status --porcelain --untracked-files=no)" ]; then echo "repo not clean"; exit 2; fi
git apply "$D" || { echo "patch does not apply"; exit 2; }
cd /verif
if [ -n "$RUNS" ]; then export VERIF_RUNS=$RUNS; fi
VERIF_EVIDENCE_DIR=/tmp/ev-scratch ./check "$P" --tier quick 2>/tmp/try_mutant.err | grep -E "^violation|VIOLATION|KNOWN|HARNESS|runs=" | cut -c1-400
rc=${PIPESTATUS[0]}
cd /repo && git checkout -- . && git clean -fdq crates
echo "exit=$rc"
