#!/bin/bash
# usage: tools/confirm_mutant.sh <worktree> <mutant dir>   (run inside a scratch worktree, never /repo)
# Confirms: patch applies + workspace compiles + existing suite passes with the
# patch; the demonstration fails with the patch and passes without it.
WT=$1; M=$2
cd "$WT" || exit 2
case "$WT" in /repo|/repo/*) echo "refusing to run in /repo"; exit 2;; esac
export CARGO_TARGET_DIR=$WT/target CARGO_NET_OFFLINE=true
git checkout -q -- . && git clean -fdq -e OUT -e target
res="mutant=$M"
git apply "$M/patch.diff" || { echo "$res patch_applies=no"; exit 1; }
if cargo test --workspace --no-fail-fast --offline > "$M/confirm_suite.log" 2>&1; then res="$res suite_with_patch=pass"; else res="$res suite_with_patch=FAIL"; fi
git apply "$M/demo.diff" || { echo "$res demo_applies=no"; git checkout -q -- .; git clean -fdq -e OUT -e target; exit 1; }
if bash "$M/run.sh" > "$M/confirm_demo_with.log" 2>&1; then res="$res demo_with_patch=PASS(unexpected)"; else res="$res demo_with_patch=fails"; fi
git apply -R "$M/patch.diff" || { echo "$res cannot_revert_patch"; }
if bash "$M/run.sh" > "$M/confirm_demo_without.log" 2>&1; then res="$res demo_without_patch=passes"; else res="$res demo_without_patch=FAILS(unexpected)"; fi
git checkout -q -- . && git clean -fdq -e OUT -e target
echo "$res"
