#!/bin/bash
# usage: tools/seed_all.sh <property> <worktree> <first seeded number> <m dirs...>  (after confirm_all.sh)
P=$1; WT=$2; N=$3; shift 3
for M in "$@"; do
  line=$(grep "mutant=$WT/OUT/$M " "$WT/OUT/confirm.txt")
  case "$line" in
    *suite_with_patch=pass*demo_with_patch=fails*demo_without_patch=passes*)
      slug=$(python3 - "$WT/OUT/$M/meta.json" "$N" <<'PY'
import json,re,sys
t=json.load(open(sys.argv[1]))['title'].lower()
print("m%s-%s" % (sys.argv[2], re.sub(r'[^a-z0-9]+','-',t).strip('-')[:40]))
PY
)
      conf=$(echo "$line" | sed 's/^mutant=[^ ]* //')
      python3 /verif/tools/seed_mutant.py "$P" "$WT/OUT/$M" "$slug" "$conf"
      ;;
    *) echo "NOT CONFIRMED: $M: $line";;
  esac
  N=$((N+1))
done
