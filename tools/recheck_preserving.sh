#!/bin/bash
# usage: tools/recheck_preserving.sh [name-substring]
# Applies each property-preserving change of /verif/preserving to /repo, runs the
# five quick checks (evidence to a scratch directory), reverts; any VIOLATION or
# HARNESS-ERROR line is a false alarm of the machinery.
cd /repo || exit 2
[ -n "$(git status --porcelain --untracked-files=no)" ] && { echo "repo not clean"; exit 2; }
bad=0
for d in /verif/preserving/*${1:-}*/; do
  git apply "$d/patch.diff" || { echo "$(basename $d): patch does not apply"; continue; }
  out=""
  for p in C06 C09 C10 C12 C17; do
    o=$(cd /verif && VERIF_EVIDENCE_DIR=/tmp/ev-scratch ./check $p --tier quick 2>&1 | grep -E "^violation|VIOLATION|HARNESS|note: main")
    [ -n "$o" ] && out="$out\n  [$p] $(echo "$o" | head -3 | cut -c1-300)"
  done
  git checkout -- . ; git clean -fdq crates
  if echo -e "$out" | grep -qE "VIOLATION|HARNESS"; then bad=1; echo "$(basename $d): ALARM$out"; else echo -e "$(basename $d): quiet$out"; fi
done
exit $bad
