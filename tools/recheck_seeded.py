#!/usr/bin/env python3
"""tools/recheck_seeded.py [name-substring ...]
Re-runs the quick check of each seeded change's property with the change applied
to /repo (reverted afterwards) and refreshes detected / detected_as /
first_violation in its meta.json. Without arguments: every seeded change."""
import json, os, re, subprocess, sys
root = "/verif/seeded"
sel = sys.argv[1:]
for d in sorted(os.listdir(root)):
    if sel and not any(s in d for s in sel):
        continue
    mp = os.path.join(root, d, "meta.json")
    meta = json.load(open(mp))
    if meta.get("neutralised_by_fix"):
        print(d, "skipped (neutralised by a fix)")
        continue
    prop = meta["property"]
    r = subprocess.run(["/verif/tools/try_mutant.sh", prop, os.path.join(root, d, "patch.diff")], stdout=subprocess.PIPE, stderr=subprocess.STDOUT, text=True)
    out = r.stdout
    if "patch does not apply" in out:
        # the files it touches were changed by a later fix: or hook commit; what
        # was recorded when it applied stays
        meta["stale"] = "patch no longer applies to /repo HEAD (its context was changed by later fix:/hook commits); detection recorded at the time it applied"
        json.dump(meta, open(mp, "w"), indent=1)
        print(d, "STALE (patch does not apply any more)")
        continue
    viol = [l for l in out.splitlines() if l.startswith("violation:")]
    classes = sorted(set(re.findall(r"class=(\S+) locator=(\S+)", "\n".join(viol))))
    meta["detected"] = ("exit=1" in out) and bool(viol)
    meta["detected_as"] = ["%s|%s" % c for c in classes]
    meta["first_violation"] = viol[0][:500] if viol else None
    if "HARNESS" in out or "exit=2" in out:
        meta["harness_error"] = [l for l in out.splitlines() if "HARNESS" in l][:2]
    else:
        meta.pop("harness_error", None)
    json.dump(meta, open(mp, "w"), indent=1)
    print(d, "detected" if meta["detected"] else "MISSED", meta["detected_as"], meta.get("harness_error", ""))
