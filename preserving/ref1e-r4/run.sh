#!/bin/sh
# usage: run.sh <decode1090 built from HEAD> <decode1090 built from HEAD + patch.diff>
# Compares stdout and -o output of both binaries on 150 random recordings
# (monotonic, gridded, drifting, far-apart timestamps; legacy rssi entries;
# junk and blank lines; with/without final newline) and 4 window lengths.
set -e
here=$(cd "$(dirname "$0")" && pwd)
base=$(realpath "$1"); new=$(realpath "$2")
tmp=$(mktemp -d); cd "$tmp"; cp "$here/frames.txt" .
fail=0
for seed in $(seq 1 150); do
  python3 "$here/gen.py" $seed > in.jsonl
  for d in 0 1 400 1000; do
    "$base" -i in.jsonl -d $d > a.out 2>/dev/null
    "$new" -i in.jsonl -d $d > b.out 2>/dev/null
    cmp -s a.out b.out || { echo "DIFF seed=$seed d=$d"; fail=1; }
    rm -f fa.out fb.out
    "$base" -i in.jsonl -d $d -o fa.out 2>/dev/null
    "$new" -i in.jsonl -d $d -o fb.out 2>/dev/null
    cmp -s fa.out fb.out || { echo "FDIFF seed=$seed d=$d"; fail=1; }
  done
done
echo "fail=$fail"
exit $fail
