import random, json, sys
frames=[l.strip() for l in open('frames.txt')]
frames += ["ffffffffffffff", "1a", "00"]
seed=int(sys.argv[1]); random.seed(seed)
n=random.randint(1,120)
shape=seed%4
t=1700000000.0
lines=[]
for i in range(n):
    if shape==0: t+=random.randint(0,300)/1000
    elif shape==1: t=1700000000.0+random.randint(0,8)/10
    elif shape==2: t+=random.randint(0,2)*0.2-0.2
    else: t=random.choice([0.0,1.0,1e6,1700000000.4,1700000000.8])
    f=random.choice(frames[:6] if seed%3 else frames)
    e={"timestamp":t,"frame":f}
    r=random.random()
    if r<0.3: e["rssi"]=-random.randint(1,30)/1.0
    elif r<0.9: e["metadata"]=[{"system_timestamp":t,"gnss_timestamp":None,"nanoseconds":None,"rssi":-12.5,"serial":random.randint(1,4),"name":None}]
    lines.append(json.dumps(e))
    if random.random()<0.05: lines.append("not json")
    if random.random()<0.05: lines.append("")
s="\n".join(lines)
if seed%2: s+="\n"
sys.stdout.write(s)
