#!/bin/sh
# usage: run.sh <root of a clean checkout>; applies patch.diff + demo.diff and runs the demo
set -e
here=$(cd "$(dirname "$0")" && pwd)
cd "${1:-.}"
git apply "$here/patch.diff"
git apply "$here/demo.diff"
cargo test -p jet1090 --offline dedup
